//! C01 / C20: parse a textual patch with the real parser and apply its single file patch to a file
//! given as bytes.   ndjson in:  {"id","a":hex|null,"patch":hex,"strip":n,"reverse":bool,"fuzz":n}
//!                   ndjson out: {"id","status","kind","old","new","reports":[[ok,line,offset,fuzz]],"out":hex|null}
use std::io::{self, BufRead, Write};
use std::panic;
use serde_json::{json, Value};
use libpatch::analysis::{AnalysisSet, fn_analysis_note_noop};
use libpatch::modified_file::ModifiedFile;
use libpatch::patch::{HunkApplyReport, PatchDirection};
use libpatch::patch::unified::parser::parse_patch;

pub fn unhex(s: &str) -> Vec<u8> { (0..s.len()).step_by(2).map(|i| u8::from_str_radix(&s[i..i + 2], 16).unwrap()).collect() }
pub fn hex(b: &[u8]) -> String { b.iter().map(|x| format!("{:02x}", x)).collect() }

pub fn main(_args: &[String]) -> i32 {
    let stdin = io::stdin();
    let stdout = io::stdout();
    let mut out = io::BufWriter::new(stdout.lock());
    for l in stdin.lock().lines() {
        let v: Value = match serde_json::from_str(&l.unwrap()) { Ok(v) => v, Err(_) => continue };
        let id = v["id"].clone();
        let a: Option<Vec<u8>> = v["a"].as_str().map(unhex);
        let patch = unhex(v["patch"].as_str().unwrap());
        let strip = v["strip"].as_u64().unwrap_or(1) as usize;
        let dir = if v["reverse"].as_bool().unwrap_or(false) { PatchDirection::Revert } else { PatchDirection::Forward };
        let fuzz = v["fuzz"].as_u64().unwrap_or(0) as usize;
        let res = panic::catch_unwind(|| {
            let p = match parse_patch(&patch, strip, false) { Ok(p) => p, Err(e) => return json!({"status": format!("parse error: {}", e)}) };
            if p.file_patches.len() != 1 { return json!({"status": format!("file patches: {}", p.file_patches.len())}); }
            let fp = &p.file_patches[0];
            let mut mf = match &a { Some(bytes) => ModifiedFile::new(bytes, true, None), None => ModifiedFile::new_non_existent() };
            let rep = fp.apply(&mut mf, dir, fuzz, &AnalysisSet::default(), &fn_analysis_note_noop);
            let reports: Vec<Value> = rep.hunk_reports().iter().map(|r| match r {
                HunkApplyReport::Applied { line, offset, fuzz, .. } => json!([true, line, offset, fuzz]),
                _ => json!([false, -1, 0, 0]) }).collect();
            let mut buf = Vec::new();
            mf.write_to(&mut buf).unwrap();
            json!({"status": "ok", "kind": format!("{:?}", fp.kind()),
                   "old": fp.old_filename().map(|x| x.to_string_lossy().to_string()),
                   "new": fp.new_filename().map(|x| x.to_string_lossy().to_string()),
                   "rename": fp.is_rename(),
                   "reports": reports, "out": if mf.deleted { Value::Null } else { json!(hex(&buf)) }})
        });
        let mut r = res.unwrap_or_else(|_| json!({"status": "panic"}));
        r["id"] = id;
        writeln!(out, "{}", r).unwrap();
    }
    out.flush().unwrap();
    0
}
