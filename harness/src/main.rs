//! rqh — conformance harness binding the TLA+ specification to the rapidquilt
//! implementation (libpatch in-process; the `apply` module of the binary is
//! included by path so that ModifiedFiles / AppliedState / FilenameDistributor
//! can be driven directly).
#![allow(dead_code)]

#[path = "/repo/src/rapidquilt/apply/mod.rs"]
mod apply;
#[path = "/repo/src/rapidquilt/arena/mod.rs"]
mod arena;
#[path = "/repo/src/rapidquilt/verif.rs"]
mod verif;

mod util;
mod hunks;
mod stack;
mod dist;
mod text;
mod rt;
mod total;

#[global_allocator]
static ALLOC: total::Counting = total::Counting;

fn main() {
    let args: Vec<String> = std::env::args().collect();
    if args.len() < 2 {
        eprintln!("usage: rqh <mode> [args]");
        std::process::exit(2);
    }
    // panics in the code under test are data: keep them quiet
    std::panic::set_hook(Box::new(|_| {}));
    let code = match args[1].as_str() {
        "hunks" => hunks::main(&args[2..]),
        "parsetotal" => total::main(&args[2..]),
        "rt" => rt::main(&args[2..]),
        "textapply" => text::main(&args[2..]),
        "dist" => dist::main(&args[2..]),
        "stack" => stack::main(&args[2..]),
        "hunks-random" => hunks::random_main(&args[2..]),
        m => { eprintln!("unknown mode {}", m); 2 }
    };
    std::process::exit(code);
}
