//! C11: feed arbitrary bytes to the real parse_patch under catch_unwind with a counting allocator.
//!   in : one job per line  "<id> <hex>"
//!   out: "<id> <ok|err|panic> <file patches> <peak bytes allocated during the parse> <error text>"
use std::alloc::{GlobalAlloc, Layout, System};
use std::io::{self, BufRead, Write};
use std::panic;
use std::sync::atomic::{AtomicUsize, Ordering};
use libpatch::patch::unified::parser::parse_patch;
use crate::text::unhex;

pub struct Counting;
static CUR: AtomicUsize = AtomicUsize::new(0);
static PEAK: AtomicUsize = AtomicUsize::new(0);

unsafe impl GlobalAlloc for Counting {
    unsafe fn alloc(&self, l: Layout) -> *mut u8 {
        let p = System.alloc(l);
        if !p.is_null() { let c = CUR.fetch_add(l.size(), Ordering::Relaxed) + l.size(); PEAK.fetch_max(c, Ordering::Relaxed); }
        p
    }
    unsafe fn dealloc(&self, p: *mut u8, l: Layout) { CUR.fetch_sub(l.size(), Ordering::Relaxed); System.dealloc(p, l) }
    unsafe fn realloc(&self, p: *mut u8, l: Layout, n: usize) -> *mut u8 {
        let q = System.realloc(p, l, n);
        if !q.is_null() {
            if n >= l.size() { let c = CUR.fetch_add(n - l.size(), Ordering::Relaxed) + (n - l.size()); PEAK.fetch_max(c, Ordering::Relaxed); }
            else { CUR.fetch_sub(l.size() - n, Ordering::Relaxed); }
        }
        q
    }
}

pub fn main(args: &[String]) -> i32 {
    let strip: usize = args.get(0).and_then(|s| s.parse().ok()).unwrap_or(1);
    let stdin = io::stdin();
    let stdout = io::stdout();
    let mut out = stdout.lock();
    for l in stdin.lock().lines() {
        let l = l.unwrap();
        let mut it = l.splitn(2, ' ');
        let id = it.next().unwrap_or("");
        let data = unhex(it.next().unwrap_or(""));
        let base = CUR.load(Ordering::Relaxed);
        PEAK.store(base, Ordering::Relaxed);
        let res = panic::catch_unwind(|| match parse_patch(&data, strip, true) {
            Ok(p) => (true, p.file_patches.len(), String::new()),
            Err(e) => (false, 0, format!("{}", e).replace(|c: char| c.is_control(), " ")),
        });
        let peak = PEAK.load(Ordering::Relaxed).saturating_sub(base);
        match res {
            Ok((ok, n, e)) => writeln!(out, "{} {} {} {} {}", id, if ok { "ok" } else { "err" }, n, peak, e).unwrap(),
            Err(_) => writeln!(out, "{} panic 0 {} -", id, peak).unwrap(),
        }
        out.flush().unwrap();
    }
    0
}
