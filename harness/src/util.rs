use std::fs::File;
use std::io::{BufRead, BufReader};
use serde_json::Value;

/// Iterate over the JSON records in a file that is either plain ndjson or raw
/// TLC output in which every record is a JSON *string* literal (PrintT(ToJson(..))).
pub fn for_each_record<F: FnMut(Value)>(path: &str, mut f: F) -> usize {
    let file = File::open(path).unwrap_or_else(|e| { eprintln!("cannot open {}: {}", path, e); std::process::exit(2) });
    let mut n = 0;
    for line in BufReader::new(file).lines() {
        let line = match line { Ok(l) => l, Err(_) => continue };
        let v: Option<Value> = if line.starts_with("\"{") {
            serde_json::from_str::<String>(&line).ok().and_then(|s| serde_json::from_str(&s).ok())
        } else if line.starts_with('{') {
            serde_json::from_str(&line).ok()
        } else { None };
        if let Some(v) = v { n += 1; f(v); }
    }
    n
}

/// Byte spelling of an abstract line symbol.  A trailing '~' means "no final
/// newline".  `variant` picks one of several spellings; equal symbols always get
/// equal bytes and different symbols different bytes within one variant.
pub fn spell(sym: &str, variant: u64) -> Vec<u8> {
    let (core, eol) = match sym.strip_suffix('~') { Some(c) => (c, false), None => (sym, true) };
    let mut v: Vec<u8> = Vec::new();
    match variant % 5 {
        0 => v.extend_from_slice(core.as_bytes()),
        1 => { v.extend_from_slice(core.as_bytes()); if eol { v.push(b'\r'); } }
        2 => { v.push(0xff); v.extend_from_slice(core.as_bytes()); v.push(0); }
        3 => { v.extend_from_slice(b"-- "); v.extend_from_slice(core.as_bytes()); }
        _ => { v.extend_from_slice(b"@@ -1 +1 @@ "); v.extend_from_slice(core.as_bytes()); v.extend_from_slice(b" \\"); }
    }
    if eol { v.push(b'\n'); }
    v
}

pub fn strs(v: &Value) -> Vec<String> {
    v.as_array().map(|a| a.iter().map(|x| x.as_str().unwrap_or("").to_string()).collect()).unwrap_or_default()
}

pub struct Tally {
    pub counts: std::collections::BTreeMap<String, usize>,
    pub samples: std::collections::BTreeMap<String, Vec<Value>>,
    pub max_samples: usize,
}
impl Tally {
    pub fn new(max_samples: usize) -> Self { Tally { counts: Default::default(), samples: Default::default(), max_samples } }
    pub fn hit(&mut self, key: &str) { *self.counts.entry(key.to_string()).or_insert(0) += 1; }
    pub fn bad(&mut self, key: &str, detail: Value) {
        self.hit(key);
        let s = self.samples.entry(key.to_string()).or_insert_with(Vec::new);
        if s.len() < self.max_samples { s.push(detail); }
    }
    pub fn to_json(&self) -> Value {
        serde_json::json!({"counts": self.counts, "samples": self.samples})
    }
}
