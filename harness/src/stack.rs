//! C04: stacks of file-patch applications (modify / create / delete, mode changes, both directions)
//! on one in-memory file, undone in LIFO order by TextFilePatch::rollback.
use std::fs::Permissions;
use std::os::unix::fs::PermissionsExt;
use std::panic::{self, AssertUnwindSafe};
use serde_json::{json, Value};
use libpatch::analysis::{AnalysisSet, fn_analysis_note_noop};
use libpatch::modified_file::ModifiedFile;
use libpatch::patch::{FilePatchKind, PatchDirection, TextFilePatch};
use crate::hunks::{own_hunk, build_hunk, OwnedHunk};
use crate::util::*;

fn perm(v: &Value) -> Option<Permissions> {
    match v.as_str() { Some("none") | None => None, Some(s) => Some(Permissions::from_mode(0o100000 | u32::from_str_radix(s, 8).unwrap())) }
}
fn perm_s(p: &Option<Permissions>) -> String { match p { None => "none".into(), Some(p) => format!("{:o}", p.mode() & 0o7777) } }

fn state_json(m: &ModifiedFile) -> Value {
    json!({"content": m.content.iter().map(|l| String::from_utf8_lossy(l).trim_end_matches('\n').to_string()).collect::<Vec<_>>(),
           "deleted": m.deleted, "perms": perm_s(&m.permissions)})
}
fn same(a: &ModifiedFile, b: &ModifiedFile) -> bool {
    a.content == b.content && a.deleted == b.deleted && a.permissions == b.permissions && a.existed == b.existed
}

/// stack <cases-file> <variant-seed>
pub fn main(args: &[String]) -> i32 {
    let path = &args[0];
    let mut t = Tally::new(4);
    let mut first: Vec<Value> = Vec::new();
    let n = for_each_record(path, |c| {
        t.hit("cases");
        if first.len() < 2 { first.push(c.clone()); }
        let variant = 0u64; // plain spelling: content is compared as symbols in the report
        let content: Vec<Vec<u8>> = strs(&c["st"]["content"]).iter().map(|s| spell(s, variant)).collect();
        let deleted = c["st"]["deleted"].as_bool().unwrap();
        let st0 = ModifiedFile { content: content.iter().map(|x| &x[..]).collect(), existed: !deleted, deleted, permissions: perm(&c["st"]["perms"]) };
        let steps = c["fps"].as_array().unwrap();
        let owned: Vec<Vec<OwnedHunk>> = steps.iter().map(|s| s["fp"]["hunks"].as_array().unwrap().iter().map(|h| own_hunk(h, variant)).collect()).collect();
        let fps: Vec<TextFilePatch> = steps.iter().zip(owned.iter()).map(|(s, hs)| {
            let fp = &s["fp"];
            let kind = match fp["kind"].as_str().unwrap() { "M" => FilePatchKind::Modify, "C" => FilePatchKind::Create, _ => FilePatchKind::Delete };
            let name = || Some(std::borrow::Cow::Borrowed(std::path::Path::new("f")));
            libpatch::patch::FilePatchBuilder::<&[u8]>::default()
                .kind(kind)
                .old_filename(if fp["hasOld"].as_bool().unwrap() { name() } else { None })
                .new_filename(if fp["hasNew"].as_bool().unwrap() { name() } else { None })
                .old_permissions(perm(&fp["operm"])).new_permissions(perm(&fp["nperm"]))
                .hunks(hs.iter().map(build_hunk).collect()).build().unwrap()
        }).collect();
        let mut cur = st0.clone();
        let mut befores: Vec<ModifiedFile> = Vec::new();
        let mut reports = Vec::new();
        let ctx = |what: &str, extra: Value| json!({"what": what, "st": c["st"], "fps": c["fps"], "observed": extra});
        for (i, (s, fp)) in steps.iter().zip(fps.iter()).enumerate() {
            let dir = if s["dir"].as_str().unwrap() == "F" { PatchDirection::Forward } else { PatchDirection::Revert };
            let lim = s["limit"].as_u64().unwrap() as usize;
            befores.push(cur.clone());
            match panic::catch_unwind(AssertUnwindSafe(|| fp.apply(&mut cur, dir, lim, &AnalysisSet::default(), &fn_analysis_note_noop))) {
                Err(_) => { t.bad("apply_panic", ctx("apply aborted", json!({"step": i + 1}))); return; }
                Ok(r) => {
                    // diagnostic: does the state agree with the algorithm model?
                    let exp = &c["after"][i];
                    let got = state_json(&cur);
                    if got != exp["st"] || r.failed() != exp["failed"].as_bool().unwrap() {
                        t.bad("diverges_from_alg", ctx("state after apply differs from the algorithm model", json!({"step": i + 1, "got": got, "failed": r.failed()})));
                    }
                    if r.failed() { t.hit("partial_or_failed_steps"); } else { t.hit("ok_steps"); }
                    reports.push((dir, r));
                }
            }
        }
        t.hit("stacks_applied");
        for i in (0..fps.len()).rev() {
            let (dir, ref rep) = reports[i];
            match panic::catch_unwind(AssertUnwindSafe(|| fps[i].rollback(&mut cur, dir, rep))) {
                Err(_) => { t.bad("rollback_panic", ctx("rollback aborted", json!({"step": i + 1}))); return; }
                Ok(()) => {
                    if !same(&cur, &befores[i]) {
                        t.bad("rollback_mismatch", ctx("rollback did not restore content / existence / permissions",
                              json!({"step": i + 1, "got": state_json(&cur), "want": state_json(&befores[i])})));
                        return;
                    }
                }
            }
        }
        t.hit("stacks_rolled_back");
    });
    let mut out = t.to_json();
    out["records"] = json!(n);
    out["first_cases"] = json!(first);
    println!("{}", out);
    0
}
