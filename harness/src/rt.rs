//! C12: parse -> write -> parse -> write on the real parser and writer.
//!   ndjson in : {"id", "patch": hex, "strip": n}
//!   ndjson out: {"id", "status", "p1": [filepatch...], "w1": hex, "status2", "p2": [...], "w2": hex}
use std::io::{self, BufRead, Write};
use std::panic;
use serde_json::{json, Value};
use libpatch::patch::unified::parser::parse_patch;
use libpatch::patch::unified::writer::UnifiedPatchWriter;
use libpatch::patch::{FilePatchKind, TextPatch};
use crate::text::{hex, unhex};

fn perm(p: Option<&std::fs::Permissions>) -> Value {
    use std::os::unix::fs::PermissionsExt;
    match p { None => json!("none"), Some(p) => json!(format!("{:o}", p.mode())) }
}
fn lines(v: &[&[u8]]) -> Value {
    json!(v.iter().map(|l| { let eol = l.last() == Some(&b'\n'); let t = if eol { &l[..l.len() - 1] } else { &l[..] }; json!([hex(t), eol]) }).collect::<Vec<_>>())
}
pub fn structure(p: &TextPatch) -> Value {
    json!(p.file_patches.iter().map(|fp| json!({
        "kind": match fp.kind() { FilePatchKind::Modify => "M", FilePatchKind::Create => "C", FilePatchKind::Delete => "D" },
        "old": fp.old_filename().map(|x| { use std::os::unix::ffi::OsStrExt; hex(x.as_os_str().as_bytes()) }),
        "new": fp.new_filename().map(|x| { use std::os::unix::ffi::OsStrExt; hex(x.as_os_str().as_bytes()) }),
        "ren": fp.is_rename(),
        "operm": perm(fp.old_permissions()), "nperm": perm(fp.new_permissions()),
        "ohash": fp.old_hash().map(|h| String::from_utf8_lossy(h).to_string()),
        "nhash": fp.new_hash().map(|h| String::from_utf8_lossy(h).to_string()),
        "hunks": fp.hunks().iter().map(|h| json!({"os": h.remove.target_line, "ns": h.add.target_line,
            "old": lines(&h.remove.content), "new": lines(&h.add.content),
            "pre": h.prefix_context, "suf": h.suffix_context, "func": hex(h.function)})).collect::<Vec<_>>(),
    })).collect::<Vec<_>>())
}

pub fn main(_args: &[String]) -> i32 {
    let stdin = io::stdin();
    let stdout = io::stdout();
    let mut out = io::BufWriter::new(stdout.lock());
    for l in stdin.lock().lines() {
        let v: Value = match serde_json::from_str(&l.unwrap()) { Ok(v) => v, Err(_) => continue };
        let patch = unhex(v["patch"].as_str().unwrap());
        let strip = v["strip"].as_u64().unwrap_or(0) as usize;
        let res = panic::catch_unwind(|| {
            let p1 = match parse_patch(&patch, strip, false) { Ok(p) => p, Err(e) => return json!({"status": format!("parse error: {}", e)}) };
            let mut w1 = Vec::new();
            if let Err(e) = p1.write_to(&mut w1) { return json!({"status": format!("write error: {}", e)}); }
            let mut r = json!({"status": "ok", "p1": structure(&p1), "w1": hex(&w1)});
            match parse_patch(&w1, 0, false) {
                Err(e) => { r["status2"] = json!(format!("parse error: {}", e)); }
                Ok(p2) => {
                    let mut w2 = Vec::new();
                    p2.write_to(&mut w2).unwrap();
                    r["status2"] = json!("ok"); r["p2"] = structure(&p2); r["w2"] = json!(hex(&w2));
                }
            }
            r
        });
        let mut r = res.unwrap_or_else(|_| json!({"status": "panic"}));
        r["id"] = v["id"].clone();
        writeln!(out, "{}", r).unwrap();
    }
    out.flush().unwrap();
    0
}
