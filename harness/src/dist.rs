//! C07: feed add() sequences to the real FilenameDistributor and check that names in one
//! connected component (as computed by the specification) get the same thread.
use serde_json::{json, Value};
use crate::apply::parallel::FilenameDistributor;
use crate::util::*;

/// dist <cases-file> <none-symbol> <thread counts, comma separated>
pub fn main(args: &[String]) -> i32 {
    let path = &args[0];
    let none = args[1].clone();
    let threads: Vec<usize> = args[2].split(',').map(|x| x.parse().unwrap()).collect();
    let mut t = Tally::new(5);
    let mut first = Vec::new();
    let n = for_each_record(path, |c| {
        t.hit("cases");
        if first.len() < 2 { first.push(c.clone()); }
        let adds: Vec<(String, Option<String>)> = c["adds"].as_array().unwrap().iter().map(|p| {
            let x = p[0].as_str().unwrap().to_string(); let y = p[1].as_str().unwrap();
            (x, if y == none { None } else { Some(y.to_string()) }) }).collect();
        if adds.iter().any(|(_, y)| y.is_some()) { t.hit("cases_with_relation"); }
        for &th in &threads {
            t.hit("runs");
            let res = std::panic::catch_unwind(|| {
                let mut d = FilenameDistributor::<String>::new(th);
                for (x, y) in &adds { d.add(x.clone(), y.clone()); }
                d.build()
            });
            let map = match res { Ok(m) => m, Err(_) => { t.bad("panic", json!({"what": "distributor panicked", "adds": c["adds"], "threads": th})); continue; } };
            let mut mentioned = 0;
            for comp in c["comps"].as_array().unwrap() {
                let names: Vec<&str> = comp.as_array().unwrap().iter().map(|x| x.as_str().unwrap()).collect();
                mentioned += names.len();
                let ids: Vec<Option<&usize>> = names.iter().map(|n| map.get(*n)).collect();
                if ids.iter().any(|i| i.is_none()) { t.bad("missing_name", json!({"what": "a mentioned name has no thread", "adds": c["adds"], "threads": th})); continue; }
                if ids.iter().any(|i| *i.unwrap() >= th) { t.bad("thread_out_of_range", json!({"what": "thread id >= thread count", "adds": c["adds"], "threads": th})); }
                if ids.iter().any(|i| i != &ids[0]) {
                    t.bad("split_component", json!({"what": "related names are assigned to different threads", "adds": c["adds"], "threads": th,
                        "component": names, "assignment": names.iter().map(|n| json!([n, map.get(*n)])).collect::<Vec<_>>()}));
                }
            }
            if mentioned != map.len() { t.bad("extra_names", json!({"what": "map has names never added", "adds": c["adds"]})); }
        }
    });
    let mut out = t.to_json();
    out["records"] = json!(n);
    out["first_cases"] = Value::Array(first);
    println!("{}", out);
    0
}
