//! Replay of hunk-level cases (C02, C03, C04, C20) into TextFilePatch::apply / rollback.
use std::borrow::Cow;
use std::panic::{self, AssertUnwindSafe};
use std::path::Path;
use serde_json::{json, Value};
use libpatch::analysis::{AnalysisSet, fn_analysis_note_noop};
use libpatch::modified_file::ModifiedFile;
use libpatch::patch::{FilePatchBuilder, FilePatchKind, Hunk, HunkApplyReport, PatchDirection, TextFilePatch};
use crate::util::*;

pub struct OwnedHunk { pub pre: Vec<Vec<u8>>, pub del: Vec<Vec<u8>>, pub ins: Vec<Vec<u8>>, pub post: Vec<Vec<u8>>, pub os: isize, pub ns: isize }

pub fn own_hunk(h: &Value, variant: u64) -> OwnedHunk {
    let sp = |k: &str| strs(&h[k]).iter().map(|s| spell(s, variant)).collect::<Vec<_>>();
    OwnedHunk { pre: sp("pre"), del: sp("del"), ins: sp("ins"), post: sp("post"),
                os: h["os"].as_i64().unwrap_or(0) as isize, ns: h["ns"].as_i64().unwrap_or(0) as isize }
}

pub fn build_hunk<'a>(h: &'a OwnedHunk) -> Hunk<'a, &'a [u8]> {
    let mut hk: Hunk<&[u8]> = Hunk::new(h.os, h.ns, b"");
    for x in &h.pre { hk.remove.content.push(&x[..]); hk.add.content.push(&x[..]); }
    for x in &h.del { hk.remove.content.push(&x[..]); }
    for x in &h.ins { hk.add.content.push(&x[..]); }
    for x in &h.post { hk.remove.content.push(&x[..]); hk.add.content.push(&x[..]); }
    hk.prefix_context = h.pre.len();
    hk.suffix_context = h.post.len();
    hk
}

pub fn build_fp<'a>(hs: &'a [OwnedHunk], kind: FilePatchKind, has_old: bool, has_new: bool) -> TextFilePatch<'a> {
    let hunks: Vec<_> = hs.iter().map(build_hunk).collect();
    let name = || Some(Cow::Borrowed(Path::new("f")));
    FilePatchBuilder::<&[u8]>::default()
        .kind(kind)
        .old_filename(if has_old { name() } else { None })
        .new_filename(if has_new { name() } else { None })
        .hunks(hunks).build().unwrap()
}

/// (ok, line, offset, fuzz)
pub fn reports_of(report: &libpatch::patch::FilePatchApplyReport) -> Vec<(bool, isize, isize, usize)> {
    report.hunk_reports().iter().map(|r| match r {
        HunkApplyReport::Applied { line, offset, fuzz, .. } => (true, *line, *offset, *fuzz),
        _ => (false, -1, 0, 0) }).collect()
}


pub struct Obs { pub panic: bool, pub rep: Vec<(bool, isize, isize, usize)>, pub out: Vec<Vec<u8>>, pub deleted: bool,
                 /// report.ok() as the tool reads it, and whether it says what the hunk reports say
                 pub ok_flag: bool, pub flags_consistent: bool,
                 pub rb_panic: bool, pub rb_same: bool, pub rb_out: Vec<Vec<u8>> }

/// Run the real apply + rollback for one (file, hunks, direction, limit).
pub fn observe(file_lines: &[Vec<u8>], fp: &TextFilePatch, dir: PatchDirection, lim: usize) -> Obs {
    let before = ModifiedFile { content: file_lines.iter().map(|x| &x[..]).collect(), existed: true, deleted: false, permissions: None };
    let mut mf = before.clone();
    let res = panic::catch_unwind(AssertUnwindSafe(|| fp.apply(&mut mf, dir, lim, &AnalysisSet::default(), &fn_analysis_note_noop)));
    let report = match res {
        Err(_) => return Obs { panic: true, rep: vec![], out: vec![], deleted: false, ok_flag: false, flags_consistent: true, rb_panic: false, rb_same: true, rb_out: vec![] },
        Ok(r) => r,
    };
    let rep = reports_of(&report);
    // after an application every hunk is either applied or failed (never skipped), and ok()/failed() say so
    let n_applied = report.hunk_reports().iter().filter(|r| matches!(r, HunkApplyReport::Applied { .. })).count();
    let n_failed = report.hunk_reports().iter().filter(|r| matches!(r, HunkApplyReport::Failed(_))).count();
    let ok_flag = report.ok();
    let flags_consistent = n_applied + n_failed == report.hunk_reports().len()
        && ok_flag == (n_failed == 0 && n_applied == report.hunk_reports().len()) && report.failed() == (n_failed > 0);
    let out: Vec<Vec<u8>> = mf.content.iter().map(|l| l.to_vec()).collect();
    let mut m2 = mf.clone();
    let (rb_panic, rb_same) = match panic::catch_unwind(AssertUnwindSafe(|| fp.rollback(&mut m2, dir, &report))) {
        Err(_) => (true, false),
        Ok(()) => (false, m2.content == before.content && m2.deleted == before.deleted && m2.permissions == before.permissions && m2.existed == before.existed),
    };
    let rb_out = m2.content.iter().map(|l| l.to_vec()).collect();
    Obs { panic: false, rep, out, deleted: mf.deleted, ok_flag, flags_consistent, rb_panic, rb_same, rb_out }
}

fn unspell(line: &[u8], table: &[(Vec<u8>, String)]) -> String {
    for (b, s) in table { if &b[..] == line { return s.clone(); } }
    format!("?{}", line.iter().map(|b| format!("{:02x}", b)).collect::<String>())
}

fn symbols_of(c: &Value) -> Vec<String> {
    let mut v = strs(&c["F"]);
    for h in c["hs"].as_array().unwrap() { for k in &["pre", "del", "ins", "post"] { v.extend(strs(&h[*k])); } }
    v.sort(); v.dedup(); v
}

/// Observation record in symbols, as Val_Hunks.tla reads it.
fn record(id: usize, c: &Value, dir_s: &str, lim: usize, o: &Obs, table: &[(Vec<u8>, String)], why: &str) -> Value {
    json!({"id": id, "F": c["F"], "hs": c["hs"], "dir": dir_s, "lim": lim, "why": why,
           "rep": o.rep.iter().map(|g| json!({"ok": g.0, "line": g.1, "fuzz": g.3})).collect::<Vec<_>>(),
           "out": if o.panic { json!(["PANIC"]) } else { json!(o.out.iter().map(|l| unspell(l, table)).collect::<Vec<_>>()) }})
}

/// hunks <cases-file> <variant-seed> <mismatch-out.ndjson>
pub fn main(args: &[String]) -> i32 {
    use std::io::Write;
    let path = &args[0];
    let variant_seed: u64 = args.get(1).and_then(|s| s.parse().ok()).unwrap_or(0);
    let mut mis = std::io::BufWriter::new(std::fs::File::create(args.get(2).map(|s| s.as_str()).unwrap_or("/dev/null")).unwrap());
    let mut t = Tally::new(4);
    let mut idx: u64 = 0;
    let mut nrec = 0usize;
    let mut first_cases: Vec<Value> = Vec::new();
    let n = for_each_record(path, |c| {
        idx += 1;
        if first_cases.len() < 2 { first_cases.push(c.clone()); }
        let variant = variant_seed.wrapping_add(idx);
        let syms = symbols_of(&c);
        let table: Vec<(Vec<u8>, String)> = syms.iter().map(|s| (spell(s, variant), s.clone())).collect();
        let file_lines: Vec<Vec<u8>> = strs(&c["F"]).iter().map(|s| spell(s, variant)).collect();
        let ohs: Vec<OwnedHunk> = c["hs"].as_array().unwrap().iter().map(|h| own_hunk(h, variant)).collect();
        let fp = build_fp(&ohs, FilePatchKind::Modify, true, true);
        t.hit("cases");
        let mut by_dir: std::collections::BTreeMap<String, Vec<(usize, bool, Vec<(bool, isize, isize, usize)>, Vec<Vec<u8>>)>> = Default::default();
        for runs in c["runs"].as_array().unwrap() {
            for run in runs.as_array().unwrap() {
                t.hit("runs");
                let dir_s = run["dir"].as_str().unwrap();
                let dir = if dir_s == "F" { PatchDirection::Forward } else { PatchDirection::Revert };
                let lim = run["lim"].as_u64().unwrap() as usize;
                let o = observe(&file_lines, &fp, dir, lim);
                let ctx = |what: &str| json!({"what": what, "F": c["F"], "hs": c["hs"], "dir": dir_s, "lim": lim, "spec": run,
                    "observed": {"rep": o.rep.iter().map(|g| json!([g.0, g.1, g.2, g.3])).collect::<Vec<_>>(),
                                 "out": o.out.iter().map(|l| unspell(l, &table)).collect::<Vec<_>>(),
                                 "after_rollback": o.rb_out.iter().map(|l| unspell(l, &table)).collect::<Vec<_>>()}});
                if o.panic {
                    t.bad("apply_panic", ctx("apply panicked"));
                    nrec += 1; writeln!(mis, "{}", record(nrec, &c, dir_s, lim, &o, &table, "apply_panic")).unwrap();
                    continue;
                }
                let exp: Vec<(bool, isize, usize)> = run["rep"].as_array().unwrap().iter().map(|r| {
                    let ok = r["ok"].as_bool().unwrap();
                    (ok, if ok { r["line"].as_i64().unwrap() as isize } else { -1 }, if ok { r["fuzz"].as_u64().unwrap() as usize } else { 0 }) }).collect();
                let got3: Vec<(bool, isize, usize)> = o.rep.iter().map(|g| (g.0, g.1, g.3)).collect();
                let recon: Vec<Vec<u8>> = strs(&run["recon"]).iter().map(|s| spell(s, variant)).collect();
                // divergence from the specification's (unique, strict) outcome: recorded and judged by TLC
                // against the property-level relation, never reported directly
                if got3 != exp || o.out != recon {
                    t.bad("diverges_from_alg", ctx("observation differs from the specification's algorithm model"));
                    nrec += 1; writeln!(mis, "{}", record(nrec, &c, dir_s, lim, &o, &table, "diverges")).unwrap();
                } else { t.hit("agrees_with_spec"); }
                for (g, h) in o.rep.iter().zip(ohs.iter()) {
                    if g.0 { let stated = if dir_s == "F" { h.os } else { h.ns };
                             if g.2 != g.1 - stated { t.bad("offset_mismatch", ctx("reported offset != line - stated line")); } }
                }
                if o.deleted { t.bad("state_mismatch", ctx("apply of a Modify patch marked the file deleted")); }
                if !o.flags_consistent { t.bad("report_inconsistent", ctx("a hunk is neither applied nor failed, or ok()/failed() contradict the hunk reports")); }
                if o.rb_panic { t.bad("rollback_panic", ctx("rollback aborted")); }
                else if !o.rb_same { t.bad("rollback_mismatch", ctx("apply followed by rollback is not the identity")); }
                else { t.hit("rollback_ok"); }
                let all_ok = o.ok_flag;
                by_dir.entry(dir_s.to_string()).or_default().push((lim, all_ok, o.rep.clone(), o.out.clone()));
            }
        }
        for (dir_s, v) in by_dir.iter() {
            for a in v.iter() { for b in v.iter() {
                if a.0 < b.0 && a.1 {
                    t.hit("fuzz_pairs_judged");
                    if a.2 != b.2 || a.3 != b.3 {
                        t.bad("fuzz_nonmonotone", json!({"what": "all hunks applied at the lower limit but the higher limit gives another result",
                            "F": c["F"], "hs": c["hs"], "dir": dir_s, "lim_low": a.0, "lim_high": b.0,
                            "low": a.2.iter().map(|g| json!([g.0, g.1, g.2, g.3])).collect::<Vec<_>>(),
                            "high": b.2.iter().map(|g| json!([g.0, g.1, g.2, g.3])).collect::<Vec<_>>()}));
                    }
                }
            }}
        }
    });
    mis.flush().unwrap();
    let mut out = t.to_json();
    out["records"] = json!(n);
    out["mismatch_records"] = json!(nrec);
    out["first_cases"] = json!(first_cases);
    println!("{}", out);
    0
}

/// hunks-random <seed> <count> <out.ndjson>: seeded random multi-hunk cases larger than the
/// exhaustive bound; every observation is recorded for validation by TLC (B2).  Rollback and
/// fuzz monotonicity are judged here (their reference is the identity / equality).
pub fn random_main(args: &[String]) -> i32 {
    use rand::{Rng, SeedableRng};
    use std::io::Write;
    let seed: u64 = args[0].parse().unwrap();
    let count: usize = args[1].parse().unwrap();
    let mut outf = std::io::BufWriter::new(std::fs::File::create(&args[2]).unwrap());
    let mut rng = rand::rngs::StdRng::seed_from_u64(seed);
    let syms = ["a", "b", "c", "d"];
    let mut t = Tally::new(4);
    let mut nrec = 0;
    for case_no in 0..count {
        let n = rng.gen_range(0..=24usize);
        let g: Vec<&str> = (0..n).map(|_| { let k = if rng.gen_bool(0.5) { 2 } else { 4 }; syms[rng.gen_range(0..k)] }).collect();
        // hunks cut out of g at increasing positions
        let nh = rng.gen_range(1..=4usize);
        let mut hs: Vec<Value> = Vec::new();
        let mut pos = 0usize; let mut growth: i64 = 0;
        for _ in 0..nh {
            if pos > n { break; }
            let s = rng.gen_range(pos..=n.min(pos + 6));
            let p = rng.gen_range(0..=3usize).min(n - s);
            let d = rng.gen_range(0..=2usize).min(n - s - p);
            let q = rng.gen_range(0..=3usize).min(n - s - p - d);
            let ni = rng.gen_range(0..=2usize);
            if d + ni == 0 { continue; }
            let ins: Vec<&str> = (0..ni).map(|_| syms[rng.gen_range(0..4)]).collect();
            let mut pre: Vec<&str> = g[s..s + p].to_vec();
            let mut post: Vec<&str> = g[s + p + d..s + p + d + q].to_vec();
            if p > 0 && rng.gen_bool(0.15) { pre[0] = "z"; }
            if q > 0 && rng.gen_bool(0.15) { post[q - 1] = "z"; }
            let e: i64 = if rng.gen_bool(0.3) { rng.gen_range(-3..=3) } else { 0 };
            let os = (s as i64 + e).max(0);
            hs.push(json!({"pre": pre, "del": g[s + p..s + p + d].to_vec(), "ins": ins, "post": post, "os": os, "ns": (os + growth).max(0)}));
            growth += ni as i64 - d as i64;
            // next hunk usually after this one's core, sometimes overlapping
            pos = if rng.gen_bool(0.8) { s + p + d } else { s };
        }
        if hs.is_empty() { continue; }
        // the file actually patched: g with a few lines inserted / removed (injects offsets and mismatches)
        let mut f: Vec<&str> = g.clone();
        for _ in 0..rng.gen_range(0..=3usize) {
            if rng.gen_bool(0.5) || f.is_empty() { let at = rng.gen_range(0..=f.len()); f.insert(at, syms[rng.gen_range(0..4)]); }
            else { let at = rng.gen_range(0..f.len()); f.remove(at); }
        }
        let c = json!({"F": f, "hs": hs});
        let variant = seed.wrapping_add(case_no as u64);
        let table: Vec<(Vec<u8>, String)> = symbols_of(&c).iter().map(|s| (spell(s, variant), s.clone())).collect();
        let file_lines: Vec<Vec<u8>> = strs(&c["F"]).iter().map(|s| spell(s, variant)).collect();
        let ohs: Vec<OwnedHunk> = c["hs"].as_array().unwrap().iter().map(|h| own_hunk(h, variant)).collect();
        let fp = build_fp(&ohs, FilePatchKind::Modify, true, true);
        t.hit("cases");
        for (dir_s, dir) in &[("F", PatchDirection::Forward), ("R", PatchDirection::Revert)] {
            let mut per_lim = Vec::new();
            for lim in 0..=3usize {
                t.hit("runs");
                let o = observe(&file_lines, &fp, *dir, lim);
                nrec += 1;
                writeln!(outf, "{}", record(nrec, &c, dir_s, lim, &o, &table, "random")).unwrap();
                let ctx = |what: &str| json!({"what": what, "F": c["F"], "hs": c["hs"], "dir": dir_s, "lim": lim,
                    "observed": {"rep": o.rep.iter().map(|g| json!([g.0, g.1, g.2, g.3])).collect::<Vec<_>>(),
                                 "out": o.out.iter().map(|l| unspell(l, &table)).collect::<Vec<_>>()}});
                if o.panic { t.bad("apply_panic", ctx("apply panicked")); continue; }
                if o.rep.iter().any(|g| g.0) { t.hit("runs_with_applied_hunk"); }
                if o.rep.iter().any(|g| g.0 && (g.2 != 0 || g.3 != 0)) { t.hit("runs_with_offset_or_fuzz"); }
                if !o.flags_consistent { t.bad("report_inconsistent", ctx("a hunk is neither applied nor failed, or ok()/failed() contradict the hunk reports")); }
                if o.rb_panic { t.bad("rollback_panic", ctx("rollback aborted")); }
                else if !o.rb_same { t.bad("rollback_mismatch", ctx("apply followed by rollback is not the identity")); }
                else { t.hit("rollback_ok"); }
                per_lim.push((lim, o.ok_flag, o.rep.clone(), o.out.clone()));
            }
            for a in per_lim.iter() { for b in per_lim.iter() {
                if a.0 < b.0 && a.1 { t.hit("fuzz_pairs_judged");
                    if a.2 != b.2 || a.3 != b.3 { t.bad("fuzz_nonmonotone", json!({"F": c["F"], "hs": c["hs"], "dir": dir_s, "lim_low": a.0, "lim_high": b.0})); } }
            }}
        }
    }
    outf.flush().unwrap();
    let mut out = t.to_json();
    out["records"] = json!(nrec);
    println!("{}", out);
    0
}
