------------------------------- MODULE Hunk -------------------------------
(* Lines, files, hunks and fuzz-trimmed hunk views.
   Mirrors src/libpatch/patch/mod.rs: Hunk, HunkView::new, HunkView::position,
   Hunk::max_useable_fuzz.

   A line is an abstract symbol (a string); two lines are equal iff their bytes
   are equal, so a line lacking its final newline is simply a different symbol
   (by convention spelled with a trailing "~").  A file is a sequence of lines.

   A hunk is a record
      [pre, del, ins, post : Seq(Line),  os, ns : Nat]
   pre/post are the leading/trailing context, del/ins the changed core (which
   may itself contain interior context lines; then the same line occurs in del
   and ins), os/ns the stated 0-based start lines of the old and new side.   *)
EXTENDS Naturals, Integers, Sequences, FiniteSets

Max2(a, b) == IF a > b THEN a ELSE b
Min2(a, b) == IF a < b THEN a ELSE b
Abs(x) == IF x < 0 THEN -x ELSE x

\* 1-based inclusive sub-sequence that tolerates empty ranges
Sub(s, a, b) == IF a > b THEN <<>> ELSE SubSeq(s, a, b)
SeqsUpTo(S, n) == UNION {[1..k -> S] : k \in 0..n}

\* Replace `cnt` lines of `cur` starting at 0-based index `at` by `new`
Splice(cur, at, cnt, new) == Sub(cur, 1, at) \o new \o Sub(cur, at + cnt + 1, Len(cur))

OldSide(h) == h.pre \o h.del \o h.post
NewSide(h) == h.pre \o h.ins \o h.post

Opp(dir) == IF dir = "F" THEN "R" ELSE "F"

MaxUsable(h) == Max2(Len(h.pre), Len(h.post))

(* HunkView::new — the view of hunk h in direction dir with fuzz g.
   remaining = max(pre, post) - g (saturating); each end keeps at most
   `remaining` context lines. *)
View(h, dir, g) ==
  LET p   == Len(h.pre)
      s   == Len(h.post)
      rem == IF Max2(p, s) > g THEN Max2(p, s) - g ELSE 0
      pf  == IF p > rem THEN p - rem ELSE 0          \* prefix_fuzz
      sf  == IF s > rem THEN s - rem ELSE 0          \* suffix_fuzz
      o   == IF dir = "F" THEN OldSide(h) ELSE NewSide(h)
      n   == IF dir = "F" THEN NewSide(h) ELSE OldSide(h)
  IN [ old  |-> Sub(o, pf + 1, Len(o) - sf),     \* remove_content()
       new  |-> Sub(n, pf + 1, Len(n) - sf),     \* add_content()
       pre  |-> p - pf,                           \* prefix_context()
       post |-> s - sf,                           \* suffix_context()
       pf   |-> pf, sf |-> sf,
       os   |-> IF dir = "F" THEN h.os ELSE h.ns, \* remove_target_line()
       ns   |-> IF dir = "F" THEN h.ns ELSE h.os, \* add_target_line()
       fuzz |-> g ]

(* HunkView::position *)
Anchor(v) == IF v.pre < v.post /\ v.ns = 0 THEN "Start"
             ELSE IF v.pre > v.post THEN "End"
             ELSE "Middle"

MatchesAt(F, needle, at) ==
  /\ at >= 0
  /\ at + Len(needle) <= Len(F)
  /\ \A i \in 1..Len(needle) : F[at + i] = needle[i]

\* The changed core of a view placed at `line` (0-based, end exclusive) and its replacement
CoreStart(v, line) == line + v.pre
CoreEnd(v, line)   == line + Len(v.old) - v.post
CoreNew(v)         == Sub(v.new, v.pre + 1, Len(v.new) - v.post)
=============================================================================
