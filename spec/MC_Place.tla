------------------------------ MODULE MC_Place ------------------------------
(* Blind single hunks: every file up to MaxFile lines over Sym, every hunk
   shape (context up to MaxCtx per side, up to MaxChg deleted and inserted
   lines), every stated line 0..MaxFile+2, both directions, every fuzz limit
   0..MaxLimit.  Most hunks match nowhere: that exercises failure reporting,
   anchoring and the fuzz ladder.

   Checked here (design level):  Alg = Ref (C02), Alg content = Reconstruct
   (C03), Rollback o Apply = id (C04), raising the limit never changes a
   success (C20).  Every case is emitted with Ref's verdict for replay into
   the implementation. *)
EXTENDS ApplyFile, Json, TLC
CONSTANTS Sym, MaxFile, MaxCtx, MaxChg, MaxLimit, EmitCases
VARIABLES F, h, ph

Shapes == [pre : SeqsUpTo(Sym, MaxCtx), del : SeqsUpTo(Sym, MaxChg), ins : SeqsUpTo(Sym, MaxChg),
           post : SeqsUpTo(Sym, MaxCtx), os : 0..(MaxFile + 2)]
Mk(x) == [pre |-> x.pre, del |-> x.del, ins |-> x.ins, post |-> x.post, os |-> x.os, ns |-> x.os]

Init == F = <<>> /\ h = Mk([pre |-> <<>>, del |-> <<>>, ins |-> <<>>, post |-> <<>>, os |-> 0]) /\ ph = 0
Next == \/ /\ ph = 0 /\ ph' = 1 /\ UNCHANGED h
           /\ \E G \in SeqsUpTo(Sym, MaxFile) : F' = G
        \/ /\ ph = 1 /\ ph' = 2 /\ UNCHANGED F
           /\ \E x \in Shapes : Len(x.del) + Len(x.ins) > 0 /\ h' = Mk(x)

Dirs == {"F", "R"}
Lims == 0..MaxLimit
FP == [kind |-> "M", hunks |-> <<h>>, hasOld |-> TRUE, hasNew |-> TRUE, operm |-> NoPerm, nperm |-> NoPerm]
St0 == [content |-> F, deleted |-> FALSE, perms |-> "644"]

AlgIsRef == ph = 2 => \A dir \in Dirs : \A lim \in Lims :
    LET a == PlaceAlg(F, h, dir, lim, 0, -1)
        r == PlaceRef(F, h, dir, lim, 0, -1)
    IN /\ a.ok = r.ok /\ (a.ok => a.line = r.line /\ a.fuzz = r.fuzz)
       /\ AllowedOutcome(F, h, dir, lim, 0, -1, a)

ContentIsRecon == ph = 2 => \A dir \in Dirs : \A lim \in Lims :
    LET r == Apply(St0, FP, dir, lim)
    IN r.st.content = Reconstruct(F, <<h>>, r.rep.hunks, dir)

RollbackIsId == ph = 2 => \A dir \in Dirs : \A lim \in Lims :
    LET r == Apply(St0, FP, dir, lim) IN Rollback(r.st, FP, r.rep) = St0

FuzzMonotone == ph = 2 => \A dir \in Dirs : \A l1 \in Lims : \A l2 \in Lims :
    (l1 < l2 /\ PlaceRef(F, h, dir, l1, 0, -1).ok) =>
       PlaceRef(F, h, dir, l2, 0, -1) = PlaceRef(F, h, dir, l1, 0, -1)

\* the trimming arithmetic proved for all naturals in TrimLemma.tla (TLAPS) is the one View uses
TSat(a, b) == IF a > b THEN a - b ELSE 0
TrimAgrees == ph = 2 => \A dir \in Dirs : \A g \in 0..(MaxLimit + 1) :
    LET v == View(h, dir, g)  p == Len(h.pre)  s == Len(h.post)  rem == TSat(Max2(p, s), g)
    IN v.pf = TSat(p, rem) /\ v.sf = TSat(s, rem) /\ v.pre = p - v.pf /\ v.post = s - v.sf

Run(dir, lim) == LET rs == ReportsRef(F, <<h>>, dir, lim)
                 IN [dir |-> dir, lim |-> lim,
                     rep |-> [i \in 1..Len(rs) |-> [ok |-> rs[i].ok, line |-> rs[i].line, fuzz |-> rs[i].fuzz]],
                     recon |-> Reconstruct(F, <<h>>, rs, dir)]
Emit == (EmitCases /\ ph = 2) =>
    PrintT(ToJson([F |-> F, hs |-> <<h>>,
                   runs |-> [d \in 1..2 |-> [l \in 1..(MaxLimit + 1) |-> Run(IF d = 1 THEN "F" ELSE "R", l - 1)]]]))
=============================================================================
