------------------------------ MODULE Outcome ------------------------------
(* The tool-level reference (Ref): what a `rapidquilt push` must leave behind,
   defined by plain recursion over the logical tree — no memory/disk split, no
   rollback, no threads, no save order.  This is the property side of C05,
   C06, C08, C09, C10, C13, C14, C16.

   Abstraction (DESIGN 2.3): a file is [ex, cells, mode]; cells is a short
   sequence of small integers; a modify hunk rewrites one cell from an
   expected value to a new one and applies iff the cell holds the expected
   value and lies behind the previously applied hunk's cell; Create sets all
   cells of an absent or empty file; Delete needs all cells to match.

   A file patch of kind "E" is one the tool refuses with an error as soon as
   it looks at it (a name that leaves the working tree): if the push gets to
   it - it is in a patch up to and including the first patch that fails - the
   whole push ends in an error and leaves nothing behind.

   File patch   [kind \in {"M","C","D","E"}, old, new (NULL = /dev/null), ren,
                 hunks : Seq([cell, from, to]), to, from : Seq(Nat), nmode]
   Patch        [fps : Seq(file patch), rev : BOOLEAN (series entry marked -R)]                                      *)
EXTENDS Naturals, Integers, Sequences, FiniteSets

CONSTANT Paths          \* the working-tree paths of the universe
NULL == "NULL"
NoMode == "none"
Absent == [ex |-> FALSE, cells |-> <<>>, mode |-> NoMode]
IsEmpty(f) == f.cells = <<>>
DefaultMode == "644"

-----------------------------------------------------------------------------
(* one file patch on the logical tree *)
ChooseName(tree, fp) ==
  IF fp.old = NULL THEN fp.new
  ELSE IF fp.new = NULL THEN fp.old
  ELSE IF fp.old = fp.new THEN fp.old
  ELSE IF tree[fp.old].ex THEN fp.old ELSE fp.new

\* hunks of a modify patch, in order; a hunk applies iff its cell holds `from`
\* and lies behind the cell of the last applied hunk
RECURSIVE ModHunks(_, _, _, _, _)
ModHunks(cells, hs, i, last, failed) ==
  IF i > Len(hs) THEN [cells |-> cells, failed |-> failed]
  ELSE LET h  == hs[i]
           ok == h.cell <= Len(cells) /\ cells[h.cell] = h.from /\ h.cell > last
       IN IF ok THEN ModHunks([cells EXCEPT ![h.cell] = h.to], hs, i + 1, h.cell, failed)
          ELSE ModHunks(cells, hs, i + 1, last, failed \cup {i})

\* apply the body of fp to file record f: [f, failed]
ApplyBody(f, fp) ==
  CASE fp.kind = "M" ->
         IF ~f.ex THEN [f |-> f, failed |-> 1..Len(fp.hunks)]
         ELSE LET r == ModHunks(f.cells, fp.hunks, 1, 0, {})
              IN [f |-> [f EXCEPT !.cells = r.cells], failed |-> r.failed]
    [] fp.kind = "C" ->
         IF ~IsEmpty(f) THEN [f |-> f, failed |-> {1}]
         ELSE [f |-> [f EXCEPT !.ex = TRUE, !.cells = fp.to,
                               !.mode = IF f.ex THEN f.mode ELSE DefaultMode], failed |-> {}]
    [] fp.kind = "D" ->
         IF f.cells # fp.from \/ ~f.ex THEN [f |-> f, failed |-> {1}]
         ELSE [f |-> IF fp.new = NULL THEN Absent ELSE [f EXCEPT !.cells = <<>>], failed |-> {}]

WithMode(f, fp) == IF fp.nmode # NoMode /\ f.ex THEN [f EXCEPT !.mode = fp.nmode] ELSE f

(* A series entry marked -R applies its patch reversed: creation and deletion swap, every hunk
   goes from `to` back to `from`; the names are used as written. *)
RevHunks(hs) == [i \in 1..Len(hs) |-> [cell |-> hs[i].cell, from |-> hs[i].to, to |-> hs[i].from]]
RevBody(fp) == [fp EXCEPT !.kind = IF fp.kind = "C" THEN "D" ELSE IF fp.kind = "D" THEN "C" ELSE "M",
                          !.hunks = RevHunks(fp.hunks), !.to = fp.from, !.from = fp.to,
                          !.new = fp.old, !.old = fp.new,
                          \* (git's deletion of an empty file is a header with "deleted file mode 100644": reversed, that is the new file's mode)
                          !.nmode = IF fp.nmode # NoMode /\ fp.kind = "M" THEN "644"
                                    ELSE IF fp.kind = "D" /\ fp.from = <<>> THEN "644" ELSE NoMode]

(* Inputs on which the statement of the properties is not decisive (DESIGN 2.5): a rename whose
   source does not exist (the tool reports success and creates an empty target, GNU patch refuses),
   a reversed rename, and a mode change without hunks for a file that does not exist (the tool
   remembers the mode for a later creation, GNU patch cannot find the file). *)
Adversarial(tree, fp, rev) ==
  /\ fp.kind # "E"
  /\ (\/ fp.ren /\ (rev \/ ~tree[ChooseName(tree, fp)].ex \/ ChooseName(tree, fp) = fp.new)
      \/ fp.kind = "M" /\ fp.hunks = <<>> /\ ~fp.ren /\ ~tree[ChooseName(tree, fp)].ex)

(* result: [tree, ok, attempted, target, final, failed, before, beforeNew] *)
ApplyFP(tree, fp, rev) ==
  LET target == ChooseName(tree, fp)
      body == IF rev THEN RevBody(fp) ELSE fp
      refused == fp.ren /\ target # fp.new /\ tree[fp.new].ex /\ ~IsEmpty(tree[fp.new])
      t1 == IF fp.ren /\ ~refused /\ target # fp.new
            THEN [tree EXCEPT ![fp.new] = [tree[target] EXCEPT !.ex = TRUE], ![target] = Absent]
            ELSE tree
      final == IF fp.ren THEN fp.new ELSE target
      r == IF fp.kind = "E" THEN [f |-> tree[target], failed |-> {}] ELSE ApplyBody(t1[final], body)
  IN IF fp.kind = "E"
     THEN [tree |-> tree, ok |-> FALSE, attempted |-> FALSE, target |-> target, final |-> target, failed |-> {},
           before |-> tree[target], beforeNew |-> Absent, err |-> TRUE]
     ELSE IF refused
     THEN [tree |-> tree, ok |-> FALSE, attempted |-> FALSE, target |-> target, final |-> target, failed |-> {},
           before |-> tree[target], beforeNew |-> Absent, err |-> FALSE]
     ELSE [tree |-> [t1 EXCEPT ![final] = WithMode(r.f, body)], ok |-> r.failed = {}, attempted |-> TRUE,
           target |-> target, final |-> final, failed |-> r.failed,
           before |-> tree[target], beforeNew |-> IF fp.ren THEN tree[fp.new] ELSE Absent, err |-> FALSE]

RECURSIVE ApplyFPs(_, _, _, _)
ApplyFPs(tree, fps, i, rev) ==
  IF i > Len(fps) THEN [tree |-> tree, results |-> <<>>, adv |-> FALSE]
  ELSE LET r    == ApplyFP(tree, fps[i], rev)
           rest == ApplyFPs(r.tree, fps, i + 1, rev)
       IN [tree |-> rest.tree,
           adv |-> Adversarial(tree, fps[i], rev) \/ rest.adv,
           results |-> <<[ok |-> r.ok, attempted |-> r.attempted, target |-> r.target, final |-> r.final,
                          failed |-> r.failed, before |-> r.before, beforeNew |-> r.beforeNew,
                          ren |-> fps[i].ren, new |-> fps[i].new, err |-> r.err]>> \o rest.results]

PatchOk(rs) == \A i \in 1..Len(rs) : rs[i].ok
PatchErr(rs) == \E i \in 1..Len(rs) : rs[i].err

-----------------------------------------------------------------------------
(* the push over series[first+1 .. last] *)
RECURSIVE Run(_, _, _, _, _, _)
\* acc: results of the applied patches, in order
Run(tree, series, i, last, acc, adv) ==
  IF i > last THEN [k |-> Len(acc), tree |-> tree, applied |-> acc, failing |-> <<>>, stopped |-> FALSE, adv |-> adv, error |-> FALSE]
  ELSE LET r == ApplyFPs(tree, series[i].fps, 1, series[i].rev)
       IN IF PatchErr(r.results) THEN [k |-> 0, tree |-> tree, applied |-> <<>>, failing |-> <<>>, stopped |-> TRUE, adv |-> adv \/ r.adv, error |-> TRUE]
          ELSE IF PatchOk(r.results) THEN Run(r.tree, series, i + 1, last, Append(acc, r.results), adv \/ r.adv)
          ELSE [k |-> Len(acc), tree |-> tree, applied |-> acc, failing |-> r.results, stopped |-> TRUE, adv |-> adv \/ r.adv, error |-> FALSE]

ParentDir(p) == IF p \in {"d/c", "d/e"} THEN "d" ELSE ""
DirExists(tree, d) == d = "" \/ \E p \in Paths : ParentDir(p) = d /\ tree[p].ex

(* Backups (C08): for each of the last n patches applied by this run and each
   file-patch entry — target name, and the new name too for a rename — the
   state of that file immediately before the patch (the first entry that
   names a file within the patch wins).  `win` = how many patches back, or
   "all". *)
BackupsOf(results, idx) ==
  LET Entries == {<<i, 1>> : i \in 1..Len(results)} \cup {<<i, 2>> : i \in {j \in 1..Len(results) : results[j].ren}}
      PathOf(e) == IF e[2] = 1 THEN results[e[1]].target ELSE results[e[1]].new
      StateOf(e) == IF e[2] = 1 THEN results[e[1]].before ELSE results[e[1]].beforeNew
      Named == {PathOf(e) : e \in Entries}
      First(p) == CHOOSE e \in Entries : PathOf(e) = p /\ \A g \in Entries : PathOf(g) = p => (e[1] < g[1] \/ (e[1] = g[1] /\ e[2] <= g[2]))
  IN {[patch |-> idx, path |-> p, cells |-> StateOf(First(p)).cells,
       mode |-> IF StateOf(First(p)).ex THEN StateOf(First(p)).mode ELSE NoMode] : p \in Named}

(* cfg = [backup \in {"always","onfail","never"}, win : Int, negative = all, dry : BOOLEAN]
   first = number of patches already applied, last = index of the goal patch. *)
Outcome(tree0, series, first, last, cfg) ==
  LET r == Run(tree0, series, first + 1, last, <<>>, FALSE)
      doBackup == cfg.backup = "always" \/ (cfg.backup = "onfail" /\ r.stopped)
      from == IF cfg.win < 0 THEN 1 ELSE (IF r.k > cfg.win THEN r.k - cfg.win + 1 ELSE 1)
      \* a reject file is written iff its directory exists in the tree the push leaves behind; it holds, in the
      \* order of the patch, the failed hunks of every file patch of the failing patch that targets the file
      Failing == {j \in 1..Len(r.failing) : r.failing[j].attempted /\ r.failing[j].failed # {}}
      RejPaths == {r.failing[j].target : j \in {x \in Failing : DirExists(r.tree, ParentDir(r.failing[x].target))}}
      PartsOf(p) == LET js == {j \in Failing : r.failing[j].target = p}
                        RECURSIVE Ordered(_)
                        Ordered(S) == IF S = {} THEN <<>>
                                      ELSE LET m == CHOOSE x \in S : \A y \in S : x <= y
                                           IN <<[j |-> m, failed |-> r.failing[m].failed]>> \o Ordered(S \ {m})
                    IN Ordered(js)
      rej == {[path |-> p, parts |-> PartsOf(p)] : p \in RejPaths}
      rejOpt == {}
  IN [k       |-> r.k,
      error   |-> r.error,                                            \* the push ends in an error: nothing is left behind
      tree    |-> IF cfg.dry \/ r.error THEN tree0 ELSE r.tree,
      applied |-> IF cfg.dry THEN 0 ELSE r.k,                         \* names appended by this run
      rejects |-> IF cfg.dry \/ r.error THEN {} ELSE rej,
      rejectsOptional |-> IF cfg.dry THEN {} ELSE rejOpt,
      adversarial |-> r.adv,
      backups |-> IF cfg.dry \/ ~doBackup \/ r.error THEN {}
                  ELSE UNION {BackupsOf(r.applied[j], first + j) : j \in from..r.k},
      exit    |-> IF r.stopped THEN 1 ELSE 0,
      failingPatch |-> IF r.stopped /\ ~r.error THEN first + r.k + 1 ELSE 0]
=============================================================================
