---------------------------- MODULE MC_RoundTrip ----------------------------
(* C12 at design level: for every abstract patch p the parser can produce
   (within bounds): Parse(Write(p)) is accepted and equals p on everything C12
   lists, and Write(Parse(Write(p))) = Write(p).  Each p is emitted, together
   with a rendering as tokens in a chosen input dialect, for replay through the
   real parser and writer. *)
EXTENDS PatchText, Json, TLC
CONSTANTS EmitCases, MaxFPs
VARIABLES fps, ph

\* ("d//nUx": a doubled separator, and U stands for a non-ASCII letter: valid unquoted on input, quoted by the writer)
Names == {"a/x", "b/x", "f y", "g\th", "d//nUx", NULL}
L(s) == <<s, TRUE>>
LN(s) == <<s, FALSE>>
\* hunk shapes: sides as line sequences; includes empty sides, lines without final newline in any
\* position, equal lines on both sides (context), zero-count sides at a non-zero position
HunkShapes == {
   [os |-> 0, ns |-> 0, old |-> <<>>, new |-> <<L("p")>>, pre |-> 0, suf |-> 0],                 \* creation
   [os |-> 0, ns |-> 0, old |-> <<L("p"), LN("q")>>, new |-> <<>>, pre |-> 0, suf |-> 0],         \* deletion, no final newline
   [os |-> 2, ns |-> 2, old |-> <<>>, new |-> <<L("p")>>, pre |-> 0, suf |-> 0],                 \* -2,0 insertion
   [os |-> 3, ns |-> 2, old |-> <<L("p")>>, new |-> <<>>, pre |-> 0, suf |-> 0],                 \* +2,0 deletion
   [os |-> 0, ns |-> 0, old |-> <<L("c"), L("p"), L("d")>>, new |-> <<L("c"), L("q"), L("d")>>, pre |-> 1, suf |-> 1],
   [os |-> 4, ns |-> 5, old |-> <<L("c"), LN("p")>>, new |-> <<L("c"), L("p")>>, pre |-> 1, suf |-> 0],   \* adds final newline
   [os |-> 1, ns |-> 1, old |-> <<LN("c"), L("p")>>, new |-> <<LN("c"), L("q")>>, pre |-> 1, suf |-> 0],   \* no-newline line in the middle
   [os |-> 0, ns |-> 0, old |-> <<L("p"), L("p")>>, new |-> <<L("p")>>, pre |-> 0, suf |-> 0],   \* repeated lines: layout is re-derived
   [os |-> 2, ns |-> 2, old |-> <<L("p")>>, new |-> <<L("p"), LN("")>>, pre |-> 1, suf |-> 0],   \* zero-length line without newline
   [os |-> 7, ns |-> 7, old |-> <<>>, new |-> <<>>, pre |-> 0, suf |-> 0] }                       \* empty hunk -7,0 +7,0
HunkLists == {<<>>} \cup {<<h>> : h \in HunkShapes} \cup {<<h1, h2>> : h1 \in {x \in HunkShapes : x.pre = 1}, h2 \in {x \in HunkShapes : x.os >= 4}}

Metas == {m \in [old : Names, new : Names, ren : BOOLEAN, operm : {NONE, "100644", "644"}, nperm : {NONE, "100755", "40000", "100644"}, hash : BOOLEAN] :   \* "100644": a new mode equal to the old one (git never writes it, the parser takes it)
            /\ ~(m.old = NULL /\ m.new = NULL)
            /\ (m.ren => m.old # NULL /\ m.new # NULL /\ m.old # m.new) }

Mk(m, hs) == [kind |-> RecognizeKind(hs), old |-> m.old, new |-> m.new, ren |-> m.ren, operm |-> m.operm, nperm |-> m.nperm,
              ohash |-> IF m.hash THEN "1a2b3c" ELSE NONE, nhash |-> IF m.hash THEN "4d5e6f" ELSE NONE, hunks |-> hs]
\* a patch without hunks exists only with extended headers (git metadata)
Retained(m) == m.ren \/ m.operm # NONE \/ m.nperm # NONE \/ m.hash
\* ... among them lines the parser recognises and ignores ("copy from" / "copy to"): a file patch made of nothing
\* but its two names.  The writer has no line to write for it, so its written form is not a file patch: a named
\* deviation from C12 (KNOWN_FINDINGS: copy-only-file-patch-lost), excluded from RoundTrip, emitted for replay.
CopyOnly(m, hs) == hs = <<>> /\ ~Retained(m) /\ m.old # NULL /\ m.new # NULL
Producible(m, hs) == hs # <<>> \/ Retained(m) \/ CopyOnly(m, hs)

\* git's creation / deletion of a zero-length file (one hunk without lines, /dev/null on the other side)
EmptyFilePatches ==
  {[kind |-> "C", old |-> NULL, new |-> n, ren |-> FALSE, operm |-> NONE, nperm |-> "100644", ohash |-> h[1], nhash |-> h[2], hunks |-> <<EmptyHunk>>] :
       n \in Names \ {NULL}, h \in {<<NONE, NONE>>, <<"0000000", "e69de29">>}}
  \cup {[kind |-> "D", old |-> n, new |-> NULL, ren |-> FALSE, operm |-> "100755", nperm |-> NONE, ohash |-> NONE, nhash |-> NONE, hunks |-> <<EmptyHunk>>] :
       n \in Names \ {NULL}}

Init == fps = <<>> /\ ph = 0
Next == /\ ph < MaxFPs /\ ph' = ph + 1
        /\ \/ \E m \in Metas : \E hs \in HunkLists : Producible(m, hs) /\ fps' = Append(fps, Mk(m, hs))
           \/ \E e \in EmptyFilePatches : fps' = Append(fps, e)

RoundTrip == (fps # <<>> /\ \A i \in 1..Len(fps) : ~IsCopyOnly(fps[i])) =>
   LET w == Write(fps)
       p == Parse(w, FALSE)
   IN /\ p.ok
      /\ PatchEq(p.fps, fps)
      /\ Write(p.fps) = w
\* the deviation is exactly that: the written form parses, to the other file patches
CopyOnlyLost == (fps # <<>> /\ \E i \in 1..Len(fps) : IsCopyOnly(fps[i])) =>
   LET p == Parse(Write(fps), FALSE) IN p.ok /\ PatchEq(p.fps, SelectSeq(fps, LAMBDA fp : ~IsCopyOnly(fp)))
Emit == (EmitCases /\ fps # <<>>) => PrintT(ToJson([fps |-> fps, written |-> Write(fps)]))
=============================================================================
