------------------------------ MODULE MC_Push ------------------------------
(* Model checking of the push drivers: every scenario of a small universe x
   every interleaving of W workers at file-patch granularity (apply phase) and
   file-operation granularity (reject / save / backup phases). *)
EXTENDS Push
CONSTANTS Universe, FailUpTo

M1(p, hs) == [kind |-> "M", old |-> p, new |-> p, ren |-> FALSE, hunks |-> hs, to |-> <<>>, from |-> <<>>, nmode |-> NoMode]
Hk(c, f, t) == [cell |-> c, from |-> f, to |-> t]
FPU_small == {
  M1("a", <<Hk(1,0,1)>>), M1("a", <<Hk(1,1,0)>>), M1("b", <<Hk(1,0,1)>>), M1("d/c", <<Hk(1,0,1)>>), M1("d/c", <<Hk(1,1,0)>>),
  [M1("a", <<>>) EXCEPT !.new = "b", !.ren = TRUE],
  [M1("a", <<Hk(1,0,1)>>) EXCEPT !.new = "b"],
  [kind |-> "C", old |-> NULL, new |-> "d/e", ren |-> FALSE, hunks |-> <<>>, to |-> <<0>>, from |-> <<>>, nmode |-> "755"],
  [kind |-> "D", old |-> "d/c", new |-> NULL, ren |-> FALSE, hunks |-> <<>>, to |-> <<>>, from |-> <<0>>, nmode |-> NoMode],
  [kind |-> "E", old |-> "b", new |-> "b", ren |-> FALSE, hunks |-> <<>>, to |-> <<>>, from |-> <<>>, nmode |-> NoMode],
  \* ... and one whose error comes in the middle of the step (a rename whose new name cannot be loaded)
  [kind |-> "E", old |-> "a", new |-> "a", ren |-> TRUE, hunks |-> <<>>, to |-> <<>>, from |-> <<>>, nmode |-> NoMode] }
FS(cells, mode) == [ex |-> TRUE, cells |-> cells, mode |-> mode]
Tr(a, b, c, e) == [p \in Paths |-> CASE p = "a" -> a [] p = "b" -> b [] p = "d/c" -> c [] p = "d/e" -> e]
Trees_small == { Tr(FS(<<0>>, "644"), Absent, FS(<<0>>, "644"), Absent),
                 Tr(FS(<<0>>, "755"), FS(<<>>, "644"), Absent, Absent),
                 Tr(FS(<<1>>, "644"), FS(<<0>>, "644"), FS(<<1>>, "644"), Absent) }
Cfg(b, w, d) == [backup |-> b, win |-> w, dry |-> d]
Cfgs_small == {Cfg("always", -1, FALSE), Cfg("onfail", 1, FALSE)}
Cfgs_dry == {Cfg("always", -1, TRUE)}

P1 == {<<x>> : x \in FPU_small} \cup {<<x, y>> : x \in FPU_small, y \in FPU_small}
P2 == {<<x>> : x \in FPU_small}
Scenarios(cfgs, fails, seqs) ==
  {LET ser == <<[fps |-> p1, rev |-> FALSE], [fps |-> p2, rev |-> r2]>>
   IN [tree0 |-> t, series |-> ser, cfg |-> c, failAt |-> k, assign |-> RankAssign(ser), seq |-> sq] :
      t \in Trees_small, p1 \in P1, p2 \in P2, r2 \in BOOLEAN, c \in cfgs, k \in fails, sq \in seqs}

\* Universe <- one of these
U_all   == Scenarios(Cfgs_small, {0}, {FALSE})
U_seq   == Scenarios(Cfgs_small, {0}, {TRUE})
U_dry   == Scenarios(Cfgs_dry, {0}, BOOLEAN)
U_fault == {s \in Scenarios({Cfg("always", -1, FALSE)}, 0..FailUpTo, BOOLEAN) : s.tree0 = Tr(FS(<<0>>, "644"), Absent, FS(<<0>>, "644"), Absent) /\ Len(s.series[1].fps) = 2 /\ ~s.series[2].rev}
\* a slice of U_all for runs with -coverage (action counts; tools/check.py C06 --coverage)
U_cov   == {s \in U_all : s.tree0 = Tr(FS(<<1>>, "644"), FS(<<0>>, "644"), FS(<<1>>, "644"), Absent) /\ s.cfg.backup = "always"}

MCInit == \E s \in Universe : InitWith(s)
MCNext == Step
=============================================================================
