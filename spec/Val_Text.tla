------------------------------ MODULE Val_Text ------------------------------
(* Evaluates the token-level model on records supplied by the drivers (B2 and
   scripted cases):
     [id, fps]           -> RoundTrip verdict for the abstract patch fps and Write(fps)
     [id, toks, trunc]   -> Parse(toks, trunc): accepted? error kind? file patches *)
EXTENDS PatchText, Json, IOUtils, TLC
VARIABLE i
Rec == ndJsonDeserialize(IOEnv.RQ_RECORDS)

HasField(r, f) == f \in DOMAIN r

Verdict(r) ==
  IF HasField(r, "fps")
  THEN LET w == Write(r.fps)
           p == Parse(w, FALSE)
           kept == SelectSeq(r.fps, LAMBDA fp : ~IsCopyOnly(fp))
       IN IF kept = r.fps THEN [id |-> r.id, rt |-> p.ok /\ PatchEq(p.fps, r.fps) /\ Write(p.fps) = w, written |-> w, lossy |-> FALSE]
          ELSE [id |-> r.id, rt |-> p.ok /\ PatchEq(p.fps, kept), written |-> w, lossy |-> TRUE]
  ELSE LET p == Parse(r.toks, r.trunc)
       IN IF p.ok THEN [id |-> r.id, ok |-> TRUE, err |-> "", nfps |-> Len(p.fps), fps |-> p.fps]
          ELSE [id |-> r.id, ok |-> FALSE, err |-> p.err, nfps |-> 0, fps |-> <<>>]

Init == i = 0
Next == i = 0 /\ \E k \in 1..Len(Rec) : i' = k
Emit == i > 0 => PrintT(ToJson(Verdict(Rec[i])))
=============================================================================
