------------------------------ MODULE Val_Dist ------------------------------
(* Longer add() sequences than the exhaustive bound, supplied by the seeded driver: for each record
   [id, adds] TLC checks the algorithm model against connected components and prints the components. *)
EXTENDS Distributor, Json, IOUtils, TLC
CONSTANTS Threads
VARIABLE i
Rec == ndJsonDeserialize(IOEnv.RQ_RECORDS)
Init == i = 0
Next == i = 0 /\ \E k \in 1..Len(Rec) : i' = k
AlgOk == i > 0 => /\ \A t \in Threads : SameWorker(Build(Rec[i].adds, t), Rec[i].adds)
                  /\ ExactWithManyThreads(Rec[i].adds)
Emit == i > 0 => PrintT(ToJson([id |-> Rec[i].id, adds |-> Rec[i].adds, comps |-> {Component(n, Rec[i].adds) : n \in Mentioned(Rec[i].adds)}]))
=============================================================================
