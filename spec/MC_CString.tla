----------------------------- MODULE MC_CString -----------------------------
(* Every name of one or two bytes (1..255; a file name cannot hold NUL):
   quoting and reading are inverse, in the writer's spelling and in the two
   other spellings.  Every one-byte name and the two-byte names built from
   the interesting bytes are emitted for replay through the real parser and
   writer (and the command line). *)
EXTENDS CString, Json
CONSTANTS EmitCases
VARIABLE n

Bytes == 1..255
Interesting == {7, 9, 10, 13, 32, 34, 39, 46, 55, 56, 92, 110, 127, 128, 191, 255}
Init == n = <<>>
Next == /\ Len(n) < 2
        /\ \E b \in Bytes : n' = Append(n, b)
Inv == n # <<>> => RoundTrip(n)
\* (names with a slash at either end are not names of files: the model covers them, the replay leaves them out)
Emitted == (\A i \in 1..Len(n) : n[i] # 47) /\ (Len(n) = 1 \/ (Len(n) = 2 /\ n[1] \in Interesting /\ n[2] \in Interesting))
Emit == (EmitCases /\ n # <<>> /\ Emitted) => PrintT(ToJson([n |-> n, q |-> Quote(n), g |-> GitQuote(n), o |-> FullOctal(n)]))
=============================================================================
