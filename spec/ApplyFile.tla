----------------------------- MODULE ApplyFile -----------------------------
(* Application and rollback of one file patch on one in-memory file.
   Mirrors TextFilePatch::{apply, rollback, apply_internal, apply_modify,
   apply_create, apply_delete} in src/libpatch/patch/mod.rs.

   File state     [content : Seq(Line), deleted : BOOLEAN, perms : STRING]
   File patch     [kind \in {"M","C","D"}, hunks, hasOld, hasNew : BOOLEAN,
                   operm, nperm : STRING ("none" = not mentioned)]
   Hunk report    [ok, line, fuzz, rb]      rb = rollback line
   Patch report   [hunks, dir, prevPerms, prevDeleted]                       *)
EXTENDS Place

NoPerm == "none"
PANIC == [content |-> <<"PANIC">>, deleted |-> FALSE, perms |-> "PANIC"]

-----------------------------------------------------------------------------
(* Ref (C03): the result determined from the original file, the hunks and the
   *reports* alone: every applied hunk's changed core, in original
   coordinates, is replaced by the hunk's inserted lines; cores must be
   disjoint and ordered; everything else — context lines included — is copied
   from the original. *)
RECURSIVE Recon(_, _, _, _, _, _)
Recon(F, hs, rs, dir, i, pos) ==          \* pos = next original index (0-based) not yet copied
  IF i > Len(hs) THEN Sub(F, pos + 1, Len(F))
  ELSE IF ~rs[i].ok THEN Recon(F, hs, rs, dir, i + 1, pos)
  ELSE LET v  == View(hs[i], dir, rs[i].fuzz)
           cs == CoreStart(v, rs[i].line)
           ce == CoreEnd(v, rs[i].line)
       IN IF cs < pos \/ ce > Len(F) THEN <<"INCONSISTENT">>
          ELSE Sub(F, pos + 1, cs) \o CoreNew(v) \o Recon(F, hs, rs, dir, i + 1, ce)

Reconstruct(F, hs, rs, dir) == Recon(F, hs, rs, dir, 1, 0)

(* Ref (C02, multi-hunk): reports as the placement relation demands, threading
   the previous offset and the frozen line. *)
RECURSIVE PlaceAllWith(_, _, _, _, _, _, _, _)
PlaceAllWith(P(_, _, _, _, _, _), F, hs, dir, limit, i, prevOff, frozen) ==
  IF i > Len(hs) THEN <<>>
  ELSE LET r  == P(F, hs[i], dir, limit, prevOff, frozen)
           v  == View(hs[i], dir, r.fuzz)
           po == IF r.ok THEN r.line - v.os ELSE prevOff
           fr == IF r.ok THEN CoreEnd(v, r.line) ELSE frozen
       IN <<r>> \o PlaceAllWith(P, F, hs, dir, limit, i + 1, po, fr)

ReportsRef(F, hs, dir, limit) == PlaceAllWith(PlaceRef, F, hs, dir, limit, 1, 0, -1)

-----------------------------------------------------------------------------
(* Alg: apply_modify.  Phase 1 places every hunk against the unmodified file,
   phase 2 splices the applied ones in order with a running offset. *)
ReportsAlg(F, hs, dir, limit) == PlaceAllWith(PlaceAlg, F, hs, dir, limit, 1, 0, -1)

RECURSIVE SpliceAll(_, _, _, _, _, _)
SpliceAll(cur, hs, rs, dir, i, off) ==
  IF i > Len(hs) THEN cur
  ELSE IF ~rs[i].ok THEN SpliceAll(cur, hs, rs, dir, i + 1, off)
  ELSE LET v == View(hs[i], dir, rs[i].fuzz)
           t == rs[i].line + off
       IN IF t < 0 \/ t + Len(v.old) > Len(cur) THEN <<"PANIC">>
          ELSE SpliceAll(Splice(cur, t, Len(v.old), v.new), hs, rs, dir, i + 1,
                         off + Len(v.new) - Len(v.old))

\* rollback_line of each applied hunk = line + net growth of earlier applied hunks
RECURSIVE RbLines(_, _, _, _, _)
RbLines(hs, rs, dir, i, off) ==
  IF i > Len(hs) THEN <<>>
  ELSE IF ~rs[i].ok THEN <<-1>> \o RbLines(hs, rs, dir, i + 1, off)
  ELSE LET v == View(hs[i], dir, rs[i].fuzz)
       IN <<rs[i].line + off>> \o RbLines(hs, rs, dir, i + 1, off + Len(v.new) - Len(v.old))

WithRb(hs, rs, dir) == LET rl == RbLines(hs, rs, dir, 1, 0)
                       IN [i \in 1..Len(rs) |-> [ok |-> rs[i].ok, line |-> rs[i].line, fuzz |-> rs[i].fuzz, rb |-> rl[i]]]

FailAll(n) == [i \in 1..n |-> [ok |-> FALSE, line |-> -1, fuzz |-> 0, rb |-> -1]]
AnyFailed(rs) == \E i \in 1..Len(rs) : ~rs[i].ok

\* result: [st, rep]
ApplyKind(st, fp, dir, limit) ==
  LET asCreate == (fp.kind = "C" /\ dir = "F") \/ (fp.kind = "D" /\ dir = "R")
      asDelete == (fp.kind = "D" /\ dir = "F") \/ (fp.kind = "C" /\ dir = "R")
  IN
  IF fp.kind = "M" THEN
     IF st.deleted THEN [st |-> st, hunks |-> FailAll(Len(fp.hunks))]
     ELSE LET rs == ReportsAlg(st.content, fp.hunks, dir, limit)
          IN [st |-> [st EXCEPT !.content = SpliceAll(st.content, fp.hunks, rs, dir, 1, 0)],
              hunks |-> WithRb(fp.hunks, rs, dir)]
  ELSE IF asCreate THEN
     LET nc == IF dir = "F" THEN NewSide(fp.hunks[1]) ELSE OldSide(fp.hunks[1]) IN
     IF st.content # <<>> THEN [st |-> st, hunks |-> FailAll(1)]
     ELSE [st |-> [st EXCEPT !.content = nc, !.deleted = FALSE],
           hunks |-> <<[ok |-> TRUE, line |-> 0, fuzz |-> 0, rb |-> 0]>>]
  ELSE \* asDelete
     LET ec == IF dir = "F" THEN OldSide(fp.hunks[1]) ELSE NewSide(fp.hunks[1])
         keepsName == IF dir = "F" THEN fp.hasNew ELSE fp.hasOld
     IN IF st.content # ec \/ st.deleted THEN [st |-> st, hunks |-> FailAll(1)]      \* there must be a file to delete
        ELSE [st |-> [st EXCEPT !.content = <<>>, !.deleted = IF keepsName THEN st.deleted ELSE TRUE],
              hunks |-> <<[ok |-> TRUE, line |-> 0, fuzz |-> 0, rb |-> 0]>>]

Apply(st, fp, dir, limit) ==
  LET r  == ApplyKind(st, fp, dir, limit)
      to == IF dir = "F" THEN fp.nperm ELSE fp.operm
  \* a file that does not exist (any more) has no permissions
  IN [st  |-> [r.st EXCEPT !.perms = IF r.st.deleted THEN NoPerm ELSE IF to # NoPerm THEN to ELSE st.perms],
      rep |-> [hunks |-> r.hunks, dir |-> dir, prevPerms |-> st.perms, prevDeleted |-> st.deleted]]

(* Alg: rollback.  Hunks are undone last-to-first, each matched and spliced at
   its recorded rollback line before the previous one is looked at; the
   existed/deleted status and the permissions are restored from the report. *)
RECURSIVE UndoHunks(_, _, _, _, _)
UndoHunks(cur, hs, rs, dir, i) ==
  IF i = 0 \/ cur = <<"PANIC">> THEN cur
  ELSE IF ~rs[i].ok THEN UndoHunks(cur, hs, rs, dir, i - 1)
  ELSE LET v == View(hs[i], Opp(dir), rs[i].fuzz)
       IN IF ~MatchesAt(cur, v.old, rs[i].rb) THEN <<"PANIC">>
          ELSE UndoHunks(Splice(cur, rs[i].rb, Len(v.old), v.new), hs, rs, dir, i - 1)

Rollback(st, fp, rep) ==
  LET dir == rep.dir
      rs  == rep.hunks
      c ==
       IF fp.kind = "M" THEN UndoHunks(st.content, fp.hunks, rs, dir, Len(rs))
       ELSE IF ~rs[1].ok THEN st.content
       ELSE LET undoCreate == (fp.kind = "C" /\ dir = "F") \/ (fp.kind = "D" /\ dir = "R")
                side == IF (fp.kind = "C") THEN NewSide(fp.hunks[1]) ELSE OldSide(fp.hunks[1])
            IN IF undoCreate THEN (IF st.content = side THEN <<>> ELSE <<"PANIC">>)
               ELSE (IF st.content = <<>> THEN side ELSE <<"PANIC">>)
  IN IF c = <<"PANIC">> THEN PANIC
     ELSE [content |-> c, deleted |-> rep.prevDeleted, perms |-> rep.prevPerms]

-----------------------------------------------------------------------------
(* LIFO stacks of applications (C04) *)
RECURSIVE ApplyStack(_, _, _, _)
\* fps: sequence of [fp, dir, limit]; returns [st, reps]
ApplyStack(st, fps, i, reps) ==
  IF i > Len(fps) THEN [st |-> st, reps |-> reps]
  ELSE LET r == Apply(st, fps[i].fp, fps[i].dir, fps[i].limit)
       IN ApplyStack(r.st, fps, i + 1, Append(reps, r.rep))

RECURSIVE RollbackStack(_, _, _, _)
RollbackStack(st, fps, reps, i) ==
  IF i = 0 \/ st = PANIC THEN st
  ELSE RollbackStack(Rollback(st, fps[i].fp, reps[i]), fps, reps, i - 1)
=============================================================================
