------------------------------- MODULE MC_Out -------------------------------
(* Scenario enumeration for the tool-level properties: a starting tree, a
   series of up to three patches built from a universe of abstract file
   patches, and the reference Outcome for each configuration of interest.
   Every scenario is emitted for materialisation as a real workspace. *)
EXTENDS Outcome, Json, TLC
CONSTANTS Trees, P1Two, NPatches, Cfgs, EmitCases, WithReverse
VARIABLES tree0, series, ph

M(p, hs) == [kind |-> "M", old |-> p, new |-> p, ren |-> FALSE, hunks |-> hs, to |-> <<>>, from |-> <<>>, nmode |-> NoMode]
H(c, f, t) == [cell |-> c, from |-> f, to |-> t]
FPU == {
  M("a", <<H(1,0,1)>>), M("a", <<H(1,1,2)>>), M("a", <<H(1,0,1), H(2,0,1)>>), M("a", <<H(2,0,1), H(1,0,1)>>),
  M("b", <<H(1,0,1)>>), M("d/c", <<H(1,0,1)>>), M("d/c", <<H(1,1,0)>>),
  M("d/e", <<H(1,1,2), H(2,0,1)>>),                                                       \* partial failure, possibly in a directory that is new
  [M("a", <<H(1,0,1)>>) EXCEPT !.new = "b"],                                             \* differing names, not a rename
  [M("d/c", <<H(2,0,1)>>) EXCEPT !.new = "b"],                                           \* another old name for the same new name
  [M("a", <<>>) EXCEPT !.new = "b", !.ren = TRUE],                                       \* pure rename
  [M("a", <<H(1,0,1)>>) EXCEPT !.new = "b", !.ren = TRUE],                               \* rename + change
  [M("a", <<>>) EXCEPT !.nmode = "755"],                                                 \* mode change only
  [kind |-> "C", old |-> NULL, new |-> "b", ren |-> FALSE, hunks |-> <<>>, to |-> <<0>>, from |-> <<>>, nmode |-> NoMode],
  [kind |-> "C", old |-> "b", new |-> "b", ren |-> FALSE, hunks |-> <<>>, to |-> <<0>>, from |-> <<>>, nmode |-> NoMode],
  [kind |-> "C", old |-> NULL, new |-> "d/e", ren |-> FALSE, hunks |-> <<>>, to |-> <<1>>, from |-> <<>>, nmode |-> "755"],
  [kind |-> "D", old |-> "a", new |-> NULL, ren |-> FALSE, hunks |-> <<>>, to |-> <<>>, from |-> <<0>>, nmode |-> NoMode],
  [kind |-> "D", old |-> "a", new |-> "a", ren |-> FALSE, hunks |-> <<>>, to |-> <<>>, from |-> <<1>>, nmode |-> NoMode],
  [kind |-> "D", old |-> "d/c", new |-> NULL, ren |-> FALSE, hunks |-> <<>>, to |-> <<>>, from |-> <<0>>, nmode |-> NoMode],
  [kind |-> "D", old |-> "a", new |-> "b", ren |-> FALSE, hunks |-> <<>>, to |-> <<>>, from |-> <<0>>, nmode |-> NoMode],   \* deletion with differing names
  [kind |-> "C", old |-> NULL, new |-> "a", ren |-> FALSE, hunks |-> <<>>, to |-> <<0>>, from |-> <<>>, nmode |-> NoMode],
  [kind |-> "C", old |-> NULL, new |-> "b", ren |-> FALSE, hunks |-> <<>>, to |-> <<>>, from |-> <<>>, nmode |-> "644"],      \* git creation of an empty file (no hunks; its header carries the mode)
  [kind |-> "D", old |-> "b", new |-> NULL, ren |-> FALSE, hunks |-> <<>>, to |-> <<>>, from |-> <<>>, nmode |-> NoMode],
  \* a file patch the tool refuses with an error (its new name leaves the tree); it belongs to the worker of its old name
  [kind |-> "E", old |-> "b", new |-> "b", ren |-> FALSE, hunks |-> <<>>, to |-> <<>>, from |-> <<>>, nmode |-> NoMode],
  \* ... and one whose error comes in the middle of the step (a rename whose new name cannot be loaded)
  [kind |-> "E", old |-> "a", new |-> "a", ren |-> TRUE, hunks |-> <<>>, to |-> <<>>, from |-> <<>>, nmode |-> NoMode] }   \* git deletion of an empty file  \* re-creation under an old name

F(cells, mode) == [ex |-> TRUE, cells |-> cells, mode |-> mode]
TreeOf(a, b, c, e) == [p \in Paths |-> CASE p = "a" -> a [] p = "b" -> b [] p = "d/c" -> c [] p = "d/e" -> e]
TreesSmall == { TreeOf(F(<<0>>, "644"), Absent, F(<<0>>, "644"), Absent),
                TreeOf(F(<<0, 0>>, "755"), F(<<>>, "600"), Absent, Absent),
                TreeOf(F(<<1>>, "644"), F(<<0>>, "644"), F(<<0>>, "644"), F(<<1>>, "644")),
                TreeOf(Absent, Absent, F(<<1>>, "644"), Absent),
                TreeOf(Absent, F(<<0, 0>>, "644"), Absent, Absent),              \* only b: two old names that both land on it
                TreeOf(F(<<0>>, "755"), Absent, Absent, Absent) }                \* a one-cell file with a mode of its own
TreesAll == {TreeOf(a, b, c, e) : a \in {Absent, F(<<0>>, "644"), F(<<0, 0>>, "755"), F(<<1>>, "644")},
                                  b \in {Absent, F(<<>>, "644"), F(<<>>, "600"), F(<<0>>, "644")},
                                  c \in {Absent, F(<<0>>, "644"), F(<<1>>, "644")}, e \in {Absent, F(<<1>>, "644")}}

Revs == IF WithReverse THEN BOOLEAN ELSE {FALSE}
One == {<<x>> : x \in FPU}
Two == {<<x, y>> : x \in FPU, y \in FPU}

\* configurations (Cfgs <- one of these)
C(b, w, d) == [backup |-> b, win |-> w, dry |-> d]
Cfgs_push    == {C("always", -1, FALSE), C("onfail", 1, FALSE), C("never", -1, FALSE)}
Cfgs_backup  == {C("always", -1, FALSE), C("always", 0, FALSE), C("always", 1, FALSE), C("always", 2, FALSE),
                 C("onfail", -1, FALSE), C("onfail", 1, FALSE), C("never", -1, FALSE)}
Cfgs_dry     == {C("always", -1, TRUE), C("onfail", 1, TRUE), C("always", -1, FALSE)}
Cfgs_one     == {C("onfail", 100, FALSE)}

Init == tree0 = TreeOf(Absent, Absent, Absent, Absent) /\ series = <<>> /\ ph = 0
Next == \/ /\ ph = 0 /\ ph' = 1 /\ UNCHANGED series /\ \E t \in Trees : tree0' = t
        \/ /\ ph = 1 /\ ph' = 2 /\ UNCHANGED tree0
           /\ \E p \in (IF P1Two THEN One \cup Two ELSE One) : \E r \in Revs : series' = <<[fps |-> p, rev |-> r]>>
        \/ /\ ph >= 2 /\ ph <= NPatches /\ ph' = ph + 1 /\ UNCHANGED tree0
           /\ \E p \in One : \E r \in Revs : series' = Append(series, [fps |-> p, rev |-> r])

CfgList == LET RECURSIVE ToSeq(_)
               ToSeq(S) == IF S = {} THEN <<>> ELSE LET x == CHOOSE x \in S : TRUE IN <<x>> \o ToSeq(S \ {x})
           IN ToSeq(Cfgs)
Emit == (EmitCases /\ ph >= 2) =>
   PrintT(ToJson([tree0 |-> tree0, series |-> series,
                  prefixTrees |-> [j \in 1..(Len(series) + 1) |-> Run(tree0, series, 1, j - 1, <<>>, FALSE).tree],
                  outsAfter1 |-> IF Len(series) >= 2 /\ ~Run(tree0, series, 1, 1, <<>>, FALSE).stopped
                                 THEN [i \in 1..Len(CfgList) |-> [cfg |-> CfgList[i],
                                        out |-> Outcome(Run(tree0, series, 1, 1, <<>>, FALSE).tree, series, 1, Len(series), CfgList[i])]]
                                 ELSE <<>>,
                  outs |-> [i \in 1..Len(CfgList) |-> [cfg |-> CfgList[i], out |-> Outcome(tree0, series, 0, Len(series), CfgList[i])]]]))
\* sanity of the reference itself: k names recorded, exit status, nothing happens on dry runs
RefSane == ph >= 2 => \A c \in Cfgs : LET o == Outcome(tree0, series, 0, Len(series), c) IN
              /\ (o.exit = 0) = (o.k = Len(series))
              /\ (c.dry => o.tree = tree0 /\ o.backups = {} /\ o.rejects = {})
              /\ (o.exit = 0 => o.rejects = {})
=============================================================================
