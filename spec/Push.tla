-------------------------------- MODULE Push --------------------------------
(* Alg: the push drivers (apply/common.rs, sequential.rs, parallel.rs) over a
   model of the in-memory state (ModifiedFiles, AppliedState) and of the disk.
   W workers; W = 1 behaves like the sequential driver.  One action per
   critical section / output operation of the code:

     Consider(w)      top of apply_worker's loop: read `earliest`, stop or apply
                      one file patch (apply_one_file_patch) and fetch_min
     BarrierApply     all workers done applying: final := earliest; an error of any
                      worker ends the run before anything is written
     RollPast(w)      save_files_worker: undo everything behind the final patch, then the entries of the
                      failed patch (rollback_rejected_patch); the failed ones are kept for the main thread
     SaveStep(w)      save_modified_file micro-operations: unlink | mkdir -p | create(+chmod+write)
     BackupStep(w)    rollback_and_save_backup_files, one stack entry per step
     CleanStep        main thread: clean_empty_directories, readdir | rmdir per directory
     RejStep          main thread: save_rej_files, one rejected file patch per step
     Finish           save_applied_patches, exit status

   The property side is Outcome.tla; the invariants at the end state that the
   observable result of every behaviour is the reference one (C05, C06, C08,
   C13), that a dry run never changes the disk (C10), that inodes linked from
   elsewhere are never written (C15) and that a failed output operation is
   never reported as success nor recorded (C18). *)
EXTENDS Outcome, TLC

CONSTANTS W                 \* number of workers
Workers == 1..W

VARIABLES
  scn,        \* the scenario: [tree0, series, cfg, failAt, assign, seq]  (constant after Init)
  files,      \* disk: path -> [ex, cells, mode, ino]
  dirs,       \* disk: set of existing directories (of the universe: "d")
  rej,        \* disk: set of reject files [path, parts : Seq(set of failed hunk indexes), one per file patch]
  bak,        \* disk: set of backup records [patch, path, cells, mode]
  applied,    \* disk: number of names appended to .pc/applied-patches
  exit,       \* "running" | "ok" | "failed" | "error"
  nextIno, written,      \* inode allocator; set of start inodes that were written in place
  queue, mem, stack, wpc, cur, err,     \* per worker
  earliest, final, cleanq, rejq, mainpc, ops, faulted

vars == <<scn, files, dirs, rej, bak, applied, exit, nextIno, written, queue, mem, stack, wpc, cur, err,
          earliest, final, cleanq, rejq, mainpc, ops, faulted>>

NSeries == Len(scn.series)

-----------------------------------------------------------------------------
(* ModifiedFiles *)
NotLoaded == [loaded |-> FALSE, cells |-> <<>>, existed |-> FALSE, deleted |-> TRUE, mode |-> NoMode]

GetOrLoad(m, p) ==
  IF m[p].loaded THEN m
  ELSE IF files[p].ex
       THEN [m EXCEPT ![p] = [loaded |-> TRUE, cells |-> files[p].cells, existed |-> TRUE, deleted |-> FALSE, mode |-> files[p].mode]]
       ELSE [m EXCEPT ![p] = [loaded |-> TRUE, cells |-> <<>>, existed |-> FALSE, deleted |-> TRUE, mode |-> NoMode]]

\* choose_filename_to_patch: memory overrides disk
ChooseTarget(m, fp) ==
  IF fp.old = NULL THEN fp.new
  ELSE IF fp.new = NULL THEN fp.old
  ELSE IF fp.old = fp.new THEN fp.old
  ELSE IF m[fp.old].loaded THEN (IF m[fp.old].deleted THEN fp.new ELSE fp.old)
  ELSE IF files[fp.old].ex THEN fp.old ELSE fp.new

\* TextFilePatch::apply on a memory record; `body` is the file patch in the direction applied
ApplyMem(f, body) ==
  LET r ==
    CASE body.kind = "M" ->
           IF f.deleted THEN [cells |-> f.cells, deleted |-> f.deleted, failed |-> 1..Len(body.hunks)]
           ELSE LET h == ModHunks(f.cells, body.hunks, 1, 0, {}) IN [cells |-> h.cells, deleted |-> f.deleted, failed |-> h.failed]
      [] body.kind = "C" ->
           IF f.cells # <<>> THEN [cells |-> f.cells, deleted |-> f.deleted, failed |-> {1}]
           ELSE [cells |-> body.to, deleted |-> FALSE, failed |-> {}]
      [] body.kind = "D" ->
           IF f.cells # body.from \/ f.deleted THEN [cells |-> f.cells, deleted |-> f.deleted, failed |-> {1}]
           ELSE [cells |-> <<>>, deleted |-> IF body.new = NULL THEN TRUE ELSE f.deleted, failed |-> {}]
      m1 == IF body.nmode # NoMode THEN body.nmode ELSE f.mode
  IN [f |-> [f EXCEPT !.cells = r.cells, !.deleted = r.deleted, !.mode = IF r.deleted THEN NoMode ELSE m1],
      failed |-> r.failed]

\* apply_one_file_patch: [mem, pushed, ok, st]
ApplyOne(m0, idx, fp, rev) ==
  LET target == ChooseTarget(m0, fp)
      body == IF rev THEN RevBody(fp) ELSE fp
      m1 == GetOrLoad(m0, target)
  IN IF fp.ren
     THEN LET src  == m1[target]
              mOut == [m1 EXCEPT ![target] = [src EXCEPT !.cells = <<>>, !.deleted = TRUE, !.mode = NoMode]]
              m2   == IF mOut[fp.new].loaded THEN mOut
                      ELSE IF files[fp.new].ex
                           THEN [mOut EXCEPT ![fp.new] = [loaded |-> TRUE, cells |-> files[fp.new].cells, existed |-> TRUE, deleted |-> FALSE, mode |-> files[fp.new].mode]]
                           ELSE [mOut EXCEPT ![fp.new] = [loaded |-> TRUE, cells |-> <<>>, existed |-> FALSE, deleted |-> TRUE, mode |-> NoMode]]
              dst  == m2[fp.new]
              refused == dst.cells # <<>> /\ ~dst.deleted
          IN IF refused
             THEN [mem |-> [m2 EXCEPT ![target] = [m2[target] EXCEPT !.cells = src.cells, !.deleted = FALSE, !.mode = src.mode]],
                   pushed |-> FALSE, ok |-> FALSE, st |-> <<>>]
             ELSE LET moved == [dst EXCEPT !.cells = src.cells, !.deleted = FALSE, !.mode = src.mode]
                      r == ApplyMem(moved, body)
                  IN [mem |-> [m2 EXCEPT ![fp.new] = r.f], pushed |-> TRUE, ok |-> r.failed = {},
                      st |-> [idx |-> idx, fp |-> fp, body |-> body, target |-> target, final |-> fp.new, failed |-> r.failed,
                              prevMode |-> moved.mode, prevDeleted |-> moved.deleted, prevCells |-> moved.cells,
                              undo |-> [tDel |-> src.deleted, nDel |-> dst.deleted, nMode |-> dst.mode]]]
     ELSE LET f == m1[target]
              r == ApplyMem(f, body)
          IN [mem |-> [m1 EXCEPT ![target] = r.f], pushed |-> TRUE, ok |-> r.failed = {},
              st |-> [idx |-> idx, fp |-> fp, body |-> body, target |-> target, final |-> target, failed |-> r.failed,
                      prevMode |-> f.mode, prevDeleted |-> f.deleted, prevCells |-> f.cells,
                      undo |-> [tDel |-> FALSE, nDel |-> FALSE, nMode |-> NoMode]]]

\* ModifiedFiles::rollback: undo the hunks that applied, restore deleted flag and mode, move a renamed file back
RollbackOne(m, st) ==
  LET f  == m[st.final]
      u  == [f EXCEPT !.cells = st.prevCells, !.deleted = st.prevDeleted, !.mode = st.prevMode]
      m1 == [m EXCEPT ![st.final] = u]
  IN IF st.fp.ren /\ st.final # st.target
     THEN [m1 EXCEPT ![st.final] = [u EXCEPT !.cells = <<>>, !.deleted = st.undo.nDel, !.mode = st.undo.nMode],
                     ![st.target] = [m1[st.target] EXCEPT !.cells = u.cells, !.deleted = st.undo.tDel, !.mode = u.mode]]
     \* a "rename" onto its own name (the source does not exist, so the new name was chosen as target): the
     \* content is moved out of and back into the same record, which ends up with the source's previous status
     ELSE IF st.fp.ren THEN [m1 EXCEPT ![st.final] = [u EXCEPT !.deleted = st.undo.tDel]]
     ELSE m1

-----------------------------------------------------------------------------
(* distribution of file patches to workers: connected components of the name graph (Distributor.tla is
   the refinement proof that the code computes these) *)
AllFPs(s) == UNION {{<<i, j>> : j \in 1..Len(s[i].fps)} : i \in 1..Len(s)}
NameEdges(s) == {<<s[x[1]].fps[x[2]].old, s[x[1]].fps[x[2]].new>> :
                   x \in {y \in AllFPs(s) : s[y[1]].fps[y[2]].old # NULL /\ s[y[1]].fps[y[2]].new # NULL}}
RECURSIVE GrowC(_, _)
GrowC(S, E) == LET T == S \cup {e[2] : e \in {x \in E : x[1] \in S}} \cup {e[1] : e \in {x \in E : x[2] \in S}}
               IN IF T = S THEN S ELSE GrowC(T, E)
PathOrder == <<"a", "b", "d/c", "d/e">>
Ord(p) == CHOOSE i \in 1..Len(PathOrder) : PathOrder[i] = p
Component(p, s) == GrowC({p}, NameEdges(s))
\* The code assigns a component to the thread (index of first appearance of its first name) mod N.  Which
\* worker gets which component does not matter for the properties; the scenario carries an assignment
\* `assign : path -> worker` that must be constant on components (MC: least member's rank mod W; trace
\* validation: the assignment observed in the run).
RankAssign(s) == [p \in Paths |-> LET C == Component(p, s)
                                       r == CHOOSE i \in {Ord(q) : q \in C} : \A q \in C : i <= Ord(q)
                                   IN ((r - 1) % W) + 1]
AssignOk(sc) == \A p \in Paths : \A q \in Component(p, sc.series) : sc.assign[p] = sc.assign[q]
FPPath(fp) == IF fp.old # NULL THEN fp.old ELSE fp.new
RECURSIVE QueueOf(_, _, _, _, _, _)
QueueOf(w, s, i, j, last, asg) ==
  IF i > last THEN <<>>
  ELSE IF j > Len(s[i].fps) THEN QueueOf(w, s, i + 1, 1, last, asg)
  ELSE (IF asg[FPPath(s[i].fps[j])] = w THEN <<[idx |-> i, fp |-> s[i].fps[j], rev |-> s[i].rev]>> ELSE <<>>)
       \o QueueOf(w, s, i, j + 1, last, asg)

-----------------------------------------------------------------------------
InitWith(sc) ==
  /\ scn = sc
  /\ files = [p \in Paths |-> [ex |-> sc.tree0[p].ex, cells |-> sc.tree0[p].cells, mode |-> sc.tree0[p].mode, ino |-> Ord(p)]]
  /\ dirs = {"d"} \cap {ParentDir(p) : p \in {q \in Paths : sc.tree0[q].ex}}
  /\ rej = {} /\ bak = {} /\ applied = 0 /\ exit = "running"
  /\ nextIno = 100 /\ written = {}
  /\ queue = [w \in Workers |-> QueueOf(w, sc.series, 1, 1, Len(sc.series), sc.assign)]
  /\ mem = [w \in Workers |-> [p \in Paths |-> NotLoaded]]
  /\ stack = [w \in Workers |-> <<>>]
  /\ wpc = [w \in Workers |-> "apply"]
  /\ cur = [w \in Workers |-> [p |-> "", stage |-> "none", eidx |-> 0]]   \* eidx: index of the patch whose file patch made the worker stop with an error
  /\ err = [w \in Workers |-> FALSE]
  /\ earliest = Len(sc.series) + 1          \* 1-based patch indexes: "no failure" = n + 1
  /\ final = 0 /\ cleanq = {} /\ rejq = {} /\ mainpc = "workers" /\ ops = 0 /\ faulted = FALSE

\* an output operation: counted; the failAt-th one fails
Fails == scn.failAt > 0 /\ ops + 1 = scn.failAt
Count == ops' = ops + 1 /\ faulted' = (faulted \/ Fails)
NoOp  == UNCHANGED <<ops, faulted>>

(* ---- apply phase ---- *)
Consider(w) ==
  /\ wpc[w] = "apply"
  /\ IF queue[w] = <<>> THEN wpc' = [wpc EXCEPT ![w] = "applied"] /\ UNCHANGED <<mem, stack, earliest, queue, cur>>
     ELSE IF Head(queue[w]).idx > earliest THEN wpc' = [wpc EXCEPT ![w] = "applied"] /\ UNCHANGED <<mem, stack, earliest, queue, cur>>
     ELSE IF Head(queue[w]).fp.kind = "E"
     THEN \* apply_one_file_patch returns an error: the worker stops; the error counts if no earlier patch fails
          /\ cur' = [cur EXCEPT ![w].eidx = Head(queue[w]).idx]
          /\ earliest' = IF Head(queue[w]).idx < earliest THEN Head(queue[w]).idx ELSE earliest
          /\ wpc' = [wpc EXCEPT ![w] = "applied"]
          /\ queue' = [queue EXCEPT ![w] = Tail(@)]
          \* a refused name is noticed before anything is loaded; the other error (a rename whose new name cannot be
          \* loaded) comes after the file to patch has been loaded - loaded, not changed
          /\ mem' = [mem EXCEPT ![w] = IF Head(queue[w]).fp.ren THEN GetOrLoad(@, ChooseTarget(@, Head(queue[w]).fp)) ELSE @]
          /\ UNCHANGED stack
     ELSE LET e == Head(queue[w])
              r == ApplyOne(mem[w], e.idx, e.fp, e.rev)
          IN /\ mem' = [mem EXCEPT ![w] = r.mem]
             /\ stack' = [stack EXCEPT ![w] = IF r.pushed THEN Append(@, r.st) ELSE @]
             /\ earliest' = IF ~r.ok /\ e.idx < earliest THEN e.idx ELSE earliest
             /\ queue' = [queue EXCEPT ![w] = Tail(@)]
             /\ UNCHANGED <<wpc, cur>>
  /\ NoOp
  /\ UNCHANGED <<scn, files, dirs, rej, bak, applied, exit, nextIno, written, err, final, cleanq, rejq, mainpc>>

\* an error of a worker counts iff the single-threaded run would have reached it: its patch is not behind the first failing one
ApplyError == \E w \in Workers : cur[w].eidx # 0 /\ cur[w].eidx <= earliest
BarrierApply ==
  /\ \A w \in Workers : wpc[w] = "applied"
  /\ final' = earliest
  /\ IF ApplyError
     THEN \* the push ends here with the error: nothing has been written, nothing will be
          /\ wpc' = [w \in Workers |-> "done"] /\ mainpc' = "exit" /\ exit' = "error"
     ELSE /\ wpc' = [w \in Workers |-> "rollpast"] /\ UNCHANGED <<mainpc, exit>>
  /\ NoOp
  /\ UNCHANGED <<scn, files, dirs, rej, bak, applied, nextIno, written, queue, mem, stack, cur, err, earliest, cleanq, rejq>>

(* ---- reject phase ---- *)
RECURSIVE RollPastF(_, _, _)
RollPastF(m, st, fin) ==
  IF st = <<>> THEN [mem |-> m, stack |-> st]
  ELSE IF st[Len(st)].idx <= fin THEN [mem |-> m, stack |-> st]
  ELSE RollPastF(RollbackOne(m, st[Len(st)]), SubSeq(st, 1, Len(st) - 1), fin)

\* entries of the failed patch: rolled back; the ones with failed hunks are handed to the main thread
RECURSIVE RollFailed(_, _, _, _)
RollFailed(m, st, fin, acc) ==
  IF st = <<>> THEN [mem |-> m, stack |-> st, rejected |-> acc]
  ELSE IF st[Len(st)].idx < fin THEN [mem |-> m, stack |-> st, rejected |-> acc]
  ELSE LET e == st[Len(st)]
       IN RollFailed(RollbackOne(m, e), SubSeq(st, 1, Len(st) - 1), fin,
                     IF e.failed # {} THEN acc \cup {[path |-> e.target, failed |-> e.failed, n |-> Len(st)]} ELSE acc)

RollPast(w) ==
  /\ wpc[w] = "rollpast"
  /\ LET r == RollPastF(mem[w], stack[w], final)
         f == RollFailed(r.mem, r.stack, final, {})
     IN IF scn.cfg.dry
        THEN /\ mem' = [mem EXCEPT ![w] = r.mem] /\ stack' = [stack EXCEPT ![w] = r.stack] /\ UNCHANGED rejq
        ELSE /\ mem' = [mem EXCEPT ![w] = f.mem] /\ stack' = [stack EXCEPT ![w] = f.stack] /\ rejq' = rejq \cup f.rejected
  /\ wpc' = [wpc EXCEPT ![w] = IF scn.cfg.dry THEN "done" ELSE "save"]
  /\ NoOp
  /\ UNCHANGED <<scn, files, dirs, rej, bak, applied, exit, nextIno, written, queue, cur, err, earliest, final, cleanq, mainpc>>

DirOnDisk(d) == d = "" \/ d \in dirs

(* ---- save phase ---- *)
Unsaved(w) == {p \in Paths : mem[w][p].loaded}
Fail(w) == err' = [err EXCEPT ![w] = TRUE] /\ wpc' = [wpc EXCEPT ![w] = "done"]

SaveStep(w) ==
  /\ wpc[w] = "save"
  /\ \/ /\ cur[w].stage = "none"
        /\ IF Unsaved(w) = {} THEN /\ wpc' = [wpc EXCEPT ![w] = "backup"] /\ NoOp
                                   /\ UNCHANGED <<cur, files, dirs, mem, cleanq, err, nextIno, written>>
           ELSE \E p \in Unsaved(w) :
                  LET f == mem[w][p] IN
                  IF f.existed
                  THEN \* unlink (NotFound tolerated)
                       /\ Count
                       /\ IF Fails THEN Fail(w) /\ UNCHANGED <<files, cur, mem, cleanq>>
                          ELSE /\ files' = [files EXCEPT ![p] = [ex |-> FALSE, cells |-> <<>>, mode |-> NoMode, ino |-> 0]]
                               /\ IF f.deleted
                                  THEN /\ cleanq' = IF ParentDir(p) # "" THEN cleanq \cup {ParentDir(p)} ELSE cleanq
                                       /\ mem' = [mem EXCEPT ![w][p].loaded = FALSE]
                                       /\ UNCHANGED cur
                                  ELSE /\ cur' = [cur EXCEPT ![w].p = p, ![w].stage = "create"]
                                       /\ UNCHANGED <<cleanq, mem>>
                               /\ UNCHANGED <<wpc, err>>
                       /\ UNCHANGED <<dirs, nextIno, written>>
                  ELSE \* the file is new: nothing to unlink
                       /\ NoOp
                       /\ IF f.deleted THEN mem' = [mem EXCEPT ![w][p].loaded = FALSE] /\ UNCHANGED cur
                          ELSE cur' = [cur EXCEPT ![w].p = p, ![w].stage = "mkdir"] /\ UNCHANGED mem
                       /\ UNCHANGED <<files, dirs, cleanq, wpc, err, nextIno, written>>
     \/ /\ cur[w].stage = "mkdir"
        /\ Count
        /\ IF Fails THEN Fail(w) /\ UNCHANGED <<dirs, cur>>
           ELSE /\ dirs' = IF ParentDir(cur[w].p) = "" THEN dirs ELSE dirs \cup {ParentDir(cur[w].p)}
                /\ cur' = [cur EXCEPT ![w].stage = "create"]
                /\ UNCHANGED <<wpc, err>>
        /\ UNCHANGED <<files, mem, cleanq, nextIno, written>>
     \/ /\ cur[w].stage = "create"
        /\ Count
        /\ LET p == cur[w].p  f == mem[w][p] IN
           IF Fails \/ ~DirOnDisk(ParentDir(p)) THEN Fail(w) /\ UNCHANGED <<files, mem, cur, nextIno, written>>
           ELSE /\ files' = [files EXCEPT ![p] = [ex |-> TRUE, cells |-> f.cells,
                                                   mode |-> IF f.mode = NoMode THEN DefaultMode ELSE f.mode,
                                                   ino |-> IF files[p].ex THEN files[p].ino ELSE nextIno]]
                \* File::create on an existing name truncates in place: the old inode is written
                /\ written' = IF files[p].ex THEN written \cup {files[p].ino} ELSE written
                /\ nextIno' = nextIno + 1
                /\ mem' = [mem EXCEPT ![w][p].loaded = FALSE]
                /\ cur' = [cur EXCEPT ![w].p = "", ![w].stage = "none"]
                /\ UNCHANGED <<wpc, err>>
        /\ UNCHANGED <<dirs, cleanq>>
  /\ UNCHANGED <<scn, rej, bak, applied, exit, queue, stack, earliest, final, rejq, mainpc>>

(* ---- backups: one stack entry per step, newest first; only entries inside the window ---- *)
DoBackup == scn.cfg.backup = "always" \/ (scn.cfg.backup = "onfail" /\ final # NSeries + 1)
DownTo == IF scn.cfg.win < 0 THEN 1 ELSE (IF final - 1 > scn.cfg.win THEN final - scn.cfg.win ELSE 1)     \* 1-based

BackupStep(w) ==
  /\ wpc[w] = "backup" /\ (scn.seq => mainpc = "record")
  /\ IF ~DoBackup \/ stack[w] = <<>> THEN wpc' = [wpc EXCEPT ![w] = "done"] /\ UNCHANGED <<mem, stack, bak, err>> /\ NoOp
     ELSE IF stack[w][Len(stack[w])].idx < DownTo THEN wpc' = [wpc EXCEPT ![w] = "done"] /\ UNCHANGED <<mem, stack, bak, err>> /\ NoOp
     ELSE LET st == stack[w][Len(stack[w])]
              m2 == RollbackOne(mem[w], st)
              Rec(p) == [patch |-> st.idx, path |-> p, cells |-> m2[p].cells,
                         mode |-> IF m2[p].deleted THEN NoMode ELSE IF m2[p].mode = NoMode THEN DefaultMode ELSE m2[p].mode]
              new == {Rec(st.target)} \cup (IF st.fp.ren THEN {Rec(st.fp.new)} ELSE {})
          IN /\ Count
             /\ IF Fails THEN Fail(w) /\ UNCHANGED <<mem, stack, bak>>
                ELSE /\ mem' = [mem EXCEPT ![w] = m2]
                     /\ stack' = [stack EXCEPT ![w] = SubSeq(@, 1, Len(@) - 1)]
                     \* a later write for the same (patch, path) replaces the earlier one
                     /\ bak' = {b \in bak : ~\E n \in new : n.patch = b.patch /\ n.path = b.path} \cup new
                     /\ UNCHANGED <<wpc, err>>
  /\ UNCHANGED <<scn, files, dirs, rej, applied, exit, nextIno, written, queue, cur, earliest, final, cleanq, rejq, mainpc>>

(* ---- main thread after the workers ---- *)
AnyErr == \E w \in Workers : err[w]
DirEmpty(d) == /\ \A p \in Paths : ParentDir(p) = d => ~files[p].ex
               /\ \A r \in rej : ParentDir(r.path) # d

\* The sequential driver (scn.seq) is one thread: it saves everything, cleans, writes rejects and only then
\* writes the backups; in the parallel driver the main thread waits for the workers (save + backups).
WorkersSaved == \A w \in Workers : wpc[w] \in {"backup", "done"}
WorkersDone  == \A w \in Workers : wpc[w] = "done"
Join ==
  /\ mainpc = "workers" /\ (IF scn.seq THEN WorkersSaved ELSE WorkersDone)
  /\ mainpc' = IF AnyErr THEN "exit" ELSE IF scn.cfg.dry THEN "record" ELSE "clean"
  /\ exit' = IF AnyErr THEN "error" ELSE exit
  /\ NoOp
  /\ UNCHANGED <<scn, files, dirs, rej, bak, applied, nextIno, written, queue, mem, stack, wpc, cur, err, earliest, final, cleanq, rejq>>

CleanStep ==
  /\ mainpc = "clean"
  /\ IF cleanq = {} THEN mainpc' = "rejects" /\ UNCHANGED <<cleanq, dirs, exit>> /\ NoOp
     ELSE \E d \in cleanq :
            /\ cleanq' = cleanq \ {d}
            /\ Count
            /\ IF Fails THEN mainpc' = "exit" /\ exit' = "error" /\ UNCHANGED dirs
               ELSE /\ dirs' = IF d \in dirs /\ DirEmpty(d) THEN dirs \ {d} ELSE dirs
                    /\ UNCHANGED <<mainpc, exit>>
  /\ UNCHANGED <<scn, files, rej, bak, applied, nextIno, written, queue, mem, stack, wpc, cur, err, earliest, final, rejq>>

\* save_rej_files in the main thread: one rejected file patch per step, in the order of the patch; the first
\* one for a file creates the reject file, later ones append to it
RejStep ==
  /\ mainpc = "rejects"
  /\ IF rejq = {} THEN mainpc' = "record" /\ UNCHANGED <<rejq, rej, exit>> /\ NoOp
     ELSE \E r \in rejq :
            /\ \A q \in rejq : q.path = r.path => r.n <= q.n
            /\ rejq' = rejq \ {r}
            /\ Count
            /\ IF Fails THEN mainpc' = "exit" /\ exit' = "error" /\ UNCHANGED rej
               ELSE /\ rej' = IF ~DirOnDisk(ParentDir(r.path)) THEN rej
                              ELSE IF \E x \in rej : x.path = r.path
                                   THEN {IF x.path = r.path THEN [x EXCEPT !.parts = Append(@, r.failed)] ELSE x : x \in rej}
                                   ELSE rej \cup {[path |-> r.path, parts |-> <<r.failed>>]}
                    /\ UNCHANGED <<mainpc, exit>>
  /\ UNCHANGED <<scn, files, dirs, bak, applied, nextIno, written, queue, mem, stack, wpc, cur, err, earliest, final, cleanq>>

Finish ==
  /\ mainpc = "record" /\ WorkersDone
  /\ mainpc' = "exit"
  /\ IF AnyErr THEN exit' = "error" /\ UNCHANGED applied /\ NoOp
     ELSE IF scn.cfg.dry THEN /\ exit' = (IF final = NSeries + 1 THEN "ok" ELSE "failed") /\ UNCHANGED applied /\ NoOp
     ELSE /\ Count
          /\ IF Fails THEN exit' = "error" /\ UNCHANGED applied
             ELSE /\ applied' = final - 1
                  /\ exit' = (IF final = NSeries + 1 THEN "ok" ELSE "failed")
  /\ UNCHANGED <<scn, files, dirs, rej, bak, nextIno, written, queue, mem, stack, wpc, cur, err, earliest, final, cleanq, rejq>>

Step == \/ \E w \in Workers : Consider(w) \/ RollPast(w) \/ SaveStep(w) \/ BackupStep(w)
        \/ BarrierApply \/ Join \/ CleanStep \/ RejStep \/ Finish

-----------------------------------------------------------------------------
(* The properties *)
Ref == Outcome(scn.tree0, scn.series, 0, NSeries, scn.cfg)
Terminated == mainpc = "exit"
DiskTree == [p \in Paths |-> IF files[p].ex THEN [ex |-> TRUE, cells |-> files[p].cells, mode |-> files[p].mode] ELSE Absent]

\* C05 / C06 / C08 / C13: every terminating behaviour without a fault leaves exactly the reference result
SameAsRef ==
  (Terminated /\ scn.failAt = 0 /\ ~Ref.adversarial) =>
    /\ (exit = "error") = Ref.error
    /\ DiskTree = Ref.tree
    /\ applied = Ref.applied
    /\ (exit = "ok") = (Ref.exit = 0) /\ (exit = "failed") = (Ref.exit = 1 /\ ~Ref.error)
    /\ rej = {[path |-> x.path, parts |-> [i \in 1..Len(x.parts) |-> x.parts[i].failed]] : x \in Ref.rejects}
    /\ bak = Ref.backups
    /\ dirs = ({ParentDir(p) : p \in {q \in Paths : Ref.tree[q].ex}} \cup {ParentDir(r.path) : r \in rej}) \ {""}

\* C10: a dry run never changes the disk (an action property: the disk variables never change)
DryWritesNothing == [][scn.cfg.dry => UNCHANGED <<files, dirs, rej, bak, applied>>]_vars

\* C15: an inode that existed at the start (and may be linked from elsewhere) is never written
LinkedInodesImmutable == written = {}

\* C18: a failed output operation is never success and nothing is recorded (unless the failing operation
\* is the recording itself, in which case every file was already written)
FaultNeverSuccess == (Terminated /\ faulted) => (exit = "error" /\ applied = 0)

\* nothing is written before every worker has finished applying (part of C05's mechanism)
NoWriteBeforeApplyDone == (\E w \in Workers : wpc[w] = "apply") => (files = [p \in Paths |-> [ex |-> scn.tree0[p].ex, cells |-> scn.tree0[p].cells, mode |-> scn.tree0[p].mode, ino |-> Ord(p)]] /\ rej = {} /\ bak = {})
=============================================================================
