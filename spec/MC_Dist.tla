------------------------------ MODULE MC_Dist ------------------------------
(* All sequences of up to MaxAdds add(x, y|none) calls over Names. *)
EXTENDS Distributor, Json, TLC
CONSTANTS MaxAdds, Threads, EmitCases
VARIABLES adds

Pairs == {<<x, y>> : x \in Names, y \in Names \cup {NONE}}
Init == adds = <<>>
Next == Len(adds) < MaxAdds /\ \E p \in Pairs : adds' = Append(adds, p)

AlgRefinesRef == /\ \A t \in Threads : SameWorker(Build(adds, t), adds)
                 /\ DOMAIN Build(adds, 1) = Mentioned(adds)
                 /\ ExactWithManyThreads(adds)
\* representative of each name's component: the least mentioned member in a fixed order
Emit == (EmitCases /\ adds # <<>>) =>
   PrintT(ToJson([adds |-> adds, comps |-> {Component(n, adds) : n \in Mentioned(adds)}]))
=============================================================================
