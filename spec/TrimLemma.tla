----------------------------- MODULE TrimLemma -----------------------------
(* Unbounded facts about the fuzz trimming of HunkView::new (Hunk.tla, View):
   for prefix context p, suffix context s and fuzz g (all naturals)
      rem == max(p,s) -. g      pf == p -. rem      sf == s -. rem      (-. = saturating subtraction)
   Used by C02 ("at most F context lines trimmed from the ends, never a changed
   line") and C20 (levels are nested).  Proved with TLAPS. *)
EXTENDS Naturals, TLAPS

Max2(a, b) == IF a > b THEN a ELSE b
Sat(a, b) == IF a > b THEN a - b ELSE 0
Rem(p, s, g) == Sat(Max2(p, s), g)
PF(p, s, g) == Sat(p, Rem(p, s, g))
SF(p, s, g) == Sat(s, Rem(p, s, g))

THEOREM NeverAChangedLine ==
  \A p, s, g \in Nat : PF(p, s, g) <= p /\ SF(p, s, g) <= s
  BY DEF PF, SF, Rem, Sat, Max2

THEOREM AtMostFuzz ==
  \A p, s, g \in Nat : PF(p, s, g) <= g /\ SF(p, s, g) <= g
  BY DEF PF, SF, Rem, Sat, Max2

THEOREM Monotone ==
  \A p, s, g, h \in Nat : g <= h => PF(p, s, g) <= PF(p, s, h) /\ SF(p, s, g) <= SF(p, s, h)
  BY DEF PF, SF, Rem, Sat, Max2

THEOREM MaxUsable ==
  \A p, s, g \in Nat : g >= Max2(p, s) => PF(p, s, g) = p /\ SF(p, s, g) = s
  BY DEF PF, SF, Rem, Sat, Max2

THEOREM BeyondMaxUsableNothingChanges ==
  \A p, s, g, h \in Nat : (g >= Max2(p, s) /\ h >= g) => PF(p, s, h) = PF(p, s, g) /\ SF(p, s, h) = SF(p, s, g)
  BY DEF PF, SF, Rem, Sat, Max2

THEOREM LongerContextTrimmedFirst ==
  \A p, s, g \in Nat : (p - PF(p, s, g) = Rem(p, s, g) \/ PF(p, s, g) = 0) /\ (s - SF(p, s, g) = Rem(p, s, g) \/ SF(p, s, g) = 0)
  BY DEF PF, SF, Rem, Sat, Max2
=============================================================================
