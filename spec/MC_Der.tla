------------------------------- MODULE MC_Der -------------------------------
(* Multi-hunk file patches whose hunks are cut out of the original file F (so
   each matches somewhere), with an optional error in the stated line, an
   optionally corrupted outermost context line (needs fuzz) and arbitrary
   overlap between consecutive hunks: a later hunk may start anywhere from the
   earlier hunk's start.  This exercises the previous-offset rule, the frozen
   line, overlapping context and context that covers lines an earlier hunk
   changed.

   Checked (design level): reports Alg = Ref (C02); content = Reconstruct
   (C03); Rollback o Apply = id, no abort (C04); fuzz monotonicity (C20). *)
EXTENDS ApplyFile, Json, TLC
CONSTANTS Sym, MaxFile, MaxCtx, MaxDel, MaxIns, MaxErr, Corrupt, NHunks, MaxLimit, Other, EmitCases
VARIABLES F, hs, ph

Shapes(G) == {x \in [s : 0..Len(G), p : 0..MaxCtx, d : 0..MaxDel, q : 0..MaxCtx,
                     ins : SeqsUpTo(Sym, MaxIns), e : (0 - MaxErr)..MaxErr,
                     c : IF Corrupt THEN 0..2 ELSE {0}] :
                 /\ x.s + x.p + x.d + x.q <= Len(G)
                 /\ x.d + Len(x.ins) > 0
                 /\ x.s + x.e >= 0
                 /\ (x.c = 1 => x.p > 0) /\ (x.c = 2 => x.q > 0)}

\* Other = a symbol not in Sym, used to corrupt a context line
Mk(G, x, delta) ==
  LET pre0  == Sub(G, x.s + 1, x.s + x.p)
      post0 == Sub(G, x.s + x.p + x.d + 1, x.s + x.p + x.d + x.q)
      pre   == IF x.c = 1 THEN <<Other>> \o Tail(pre0) ELSE pre0
      post  == IF x.c = 2 THEN Sub(post0, 1, Len(post0) - 1) \o <<Other>> ELSE post0
  IN [pre |-> pre, del |-> Sub(G, x.s + x.p + 1, x.s + x.p + x.d), ins |-> x.ins, post |-> post,
      os |-> x.s + x.e, ns |-> x.s + x.e + delta]

Growth(hh) == IF Len(hh) = 0 THEN 0
              ELSE LET Sum[i \in 0..Len(hh)] == IF i = 0 THEN 0 ELSE Sum[i-1] + Len(hh[i].ins) - Len(hh[i].del)
                   IN Sum[Len(hh)]

Init == F = <<>> /\ hs = <<>> /\ ph = 0
Next == \/ /\ ph = 0 /\ ph' = 1 /\ UNCHANGED hs
           /\ \E G \in SeqsUpTo(Sym, MaxFile) : F' = G
        \/ /\ ph >= 1 /\ ph <= NHunks /\ ph' = ph + 1 /\ UNCHANGED F
           /\ \E x \in Shapes(F) :
                /\ (hs # <<>> => x.s + x.e >= hs[Len(hs)].os)
                /\ hs' = Append(hs, Mk(F, x, Growth(hs)))

Done == ph = NHunks + 1 \/ (ph >= 2 /\ EmitCases = "all")
Lims == 0..MaxLimit
FP == [kind |-> "M", hunks |-> hs, hasOld |-> TRUE, hasNew |-> TRUE, operm |-> NoPerm, nperm |-> NoPerm]
St0 == [content |-> F, deleted |-> FALSE, perms |-> "644"]
Proj(rs) == [i \in 1..Len(rs) |-> [ok |-> rs[i].ok, line |-> rs[i].line, fuzz |-> rs[i].fuzz]]

AlgIsRef == ph >= 2 => \A lim \in Lims :
    Proj(ReportsAlg(F, hs, "F", lim)) = Proj(ReportsRef(F, hs, "F", lim))

ContentIsRecon == ph >= 2 => \A lim \in Lims :
    LET r == Apply(St0, FP, "F", lim)
    IN r.st.content = Reconstruct(F, hs, r.rep.hunks, "F")

RollbackIsId == ph >= 2 => \A lim \in Lims :
    LET r == Apply(St0, FP, "F", lim) IN Rollback(r.st, FP, r.rep) = St0

AllOk(rs) == \A i \in 1..Len(rs) : rs[i].ok
FuzzMonotone == ph >= 2 => \A l1 \in Lims : \A l2 \in Lims :
    (l1 < l2 /\ AllOk(ReportsRef(F, hs, "F", l1))) =>
       Proj(ReportsRef(F, hs, "F", l2)) = Proj(ReportsRef(F, hs, "F", l1))

Run(lim) == LET rs == ReportsRef(F, hs, "F", lim)
            IN [dir |-> "F", lim |-> lim, rep |-> Proj(rs), recon |-> Reconstruct(F, hs, rs, "F")]
Emit == (EmitCases # "none" /\ ph = NHunks + 1) =>
    PrintT(ToJson([F |-> F, hs |-> hs, runs |-> <<[l \in 1..(MaxLimit + 1) |-> Run(l - 1)]>>]))
=============================================================================
