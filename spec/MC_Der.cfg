CONSTANTS Sym = {"a","b"} MaxFile = 4 MaxCtx = 2 MaxDel = 1 MaxIns = 1 MaxErr = 0 Corrupt = FALSE NHunks = 2 MaxLimit = 1 Other = "z" EmitCases = "none"
INIT Init
NEXT Next
INVARIANT AlgIsRef
INVARIANT ContentIsRecon
INVARIANT RollbackIsId
INVARIANT FuzzMonotone
INVARIANT Emit
CHECK_DEADLOCK FALSE
