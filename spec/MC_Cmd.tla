------------------------------- MODULE MC_Cmd -------------------------------
(* Enumerations over the command layer:
     Mode "lines"    every series line of up to MaxWords words (C16)
     Mode "states"   every (series, applied-patches, goal) combination (C17)
     Mode "sessions" every plan of up to MaxInv invocations over a series with
                     an optional failing patch (C09); the expected final state
                     is computed by composing the reference Outcome and must
                     equal the single invocation to the furthest goal. *)
EXTENDS Cmd, Json, TLC
CONSTANTS Mode, MaxWords, MaxInv, EmitCases
VARIABLES line, lead, st, plan, ph

\* ---------------- lines
Words == { [k |-> "name", s |-> "p.patch"], [k |-> "hash"], [k |-> "p", v |-> 0], [k |-> "p", v |-> 1], [k |-> "p", v |-> 2], [k |-> "p", v |-> 3], [k |-> "p", v |-> -1],
           [k |-> "popt"], [k |-> "strip", v |-> 2], [k |-> "stripopt"], [k |-> "R"], [k |-> "Rp", v |-> 2], [k |-> "bad"],
           [k |-> "num", v |-> 0], [k |-> "num", v |-> 2], [k |-> "num", v |-> 4] }

\* ---------------- states
Names == <<"p1.patch", "p2.patch", "p3.patch">>
SeriesN(n) == SubSeq(Names, 1, n)
AppliedVariants(n) ==
  {<<>>} \cup {SubSeq(Names, 1, j) : j \in 1..n}                       \* prefixes
         \cup {SeriesN(n) \o <<"x.patch">>}                              \* longer than the series
         \cup (IF n >= 2 THEN {<<Names[2], Names[1]>>, <<Names[1], "x.patch">>, <<"x.patch">>, <<Names[1], Names[1]>>} ELSE {<<"x.patch">>})
         \* edited / reordered / duplicated in a position that is not the last one, with a patch still to push
         \cup (IF n >= 3 THEN {<<"x.patch", Names[2]>>, <<Names[2], Names[2]>>, <<Names[3], Names[2]>>} ELSE {})
Goals == {[g |-> "default"], [g |-> "all"], [g |-> "count", n |-> 0], [g |-> "count", n |-> 2], [g |-> "count", n |-> 7]}
           \cup {[g |-> "name", s |-> Names[i]] : i \in 1..3} \cup {[g |-> "name", s |-> "x.patch"]}
           \cup {[g |-> "aname", s |-> Names[1]], [g |-> "aname", s |-> Names[2]], [g |-> "aname", s |-> "x.patch"], [g |-> "acount", n |-> 1]}
\* a broken patch file at a position of the series: "none", or [pos, how \in {"missing","garbage"}]
\* "garbage".."binary": one representative per error class of the token-level parser model (PatchText.tla)
BrokenKinds == {"missing", "garbage", "truncated", "badheader", "nofilename", "binary"}
Broken(n) == {[pos |-> 0, how |-> "none"]} \cup {[pos |-> i, how |-> h] : i \in 1..n, h \in BrokenKinds}

\* ... and, for the goals that can span the whole series: a second patch file that is missing (b2, behind the first
\* broken one) and a patch that does not apply (fail; its file is a good one).  What counts is the order in which a
\* sequential push would meet them: it stops at the first of them and never looks at anything behind it.
Extras(n, g, b) ==
  {<<0, 0>>} \cup
  (IF g.g = "all" \/ (g.g = "count" /\ g.n = 2)
   THEN {x \in (0..n) \X (0..n) : /\ x # <<0, 0>>
                                  /\ (x[1] # 0 => b.pos # 0 /\ x[1] > b.pos)
                                  /\ (x[2] # 0 => x[2] # b.pos /\ x[2] # x[1])}
   ELSE {})

\* ---------------- sessions: series of 4 patches on one file, patch i sets cell i from 0 to 1;
\* `fail` = index of a patch that cannot apply (0 = none)
NS == 4
SessGoals == {[g |-> "default"], [g |-> "all"], [g |-> "count", n |-> 2]} \cup {[g |-> "name", s |-> "p2.patch"], [g |-> "name", s |-> "p4.patch"]}
SNames == <<"p1.patch", "p2.patch", "p3.patch", "p4.patch">>
\* reference push over first+1..last: number applied and whether it stopped
Push(first, last, fail) == IF fail > first /\ fail <= last THEN [k |-> fail - 1 - first, stopped |-> TRUE]
                           ELSE [k |-> last - first, stopped |-> FALSE]
RECURSIVE Session(_, _, _, _)
\* returns [applied (count), exits (seq), far (the furthest goal index any accepted invocation asked for)]
Session(pl, i, applied, fail) ==
  IF i > Len(pl) THEN [applied |-> applied, exits |-> <<>>, far |-> 0]
  ELSE LET r == Resolve(SNames, SubSeq(SNames, 1, applied), pl[i].goal) IN
       IF ~r.ok THEN LET rest == Session(pl, i + 1, applied, fail)
                     IN [applied |-> rest.applied, exits |-> <<1>> \o rest.exits, far |-> rest.far]
       ELSE LET p == Push(r.first, r.last, fail)
                rest == Session(pl, i + 1, applied + p.k, fail)
            IN [applied |-> rest.applied, exits |-> <<IF p.stopped THEN 1 ELSE 0>> \o rest.exits,
                far |-> IF r.last > rest.far THEN r.last ELSE rest.far]

Init == line = <<>> /\ lead = FALSE /\ st = [n |-> 0] /\ plan = <<>> /\ ph = 0
Next ==
  \/ /\ Mode = "lines" /\ Len(line) < MaxWords /\ \E w \in Words : line' = Append(line, w)
     /\ UNCHANGED <<lead, st, plan, ph>>
  \/ /\ Mode = "lines" /\ line # <<>> /\ ~lead /\ lead' = TRUE /\ ph' = 1 /\ UNCHANGED <<line, st, plan>>
  \/ /\ Mode = "states" /\ ph = 0 /\ ph' = 1 /\ UNCHANGED <<line, lead, plan>>
     /\ \E n \in 1..3 : \E a \in AppliedVariants(n) : \E g \in Goals : \E b \in Broken(n) : \E x \in Extras(n, g, b) :
          st' = [n |-> n, series |-> SeriesN(n), applied |-> a, goal |-> g, broken |-> b, b2 |-> x[1], fail |-> x[2]]
  \/ /\ Mode = "sessions" /\ Len(plan) < MaxInv /\ ph' = ph /\ UNCHANGED <<line, lead>>
     /\ \E f \in (IF plan = <<>> THEN {0, 2, 3} ELSE {st.fail}) : \E g \in SessGoals : \E t \in {1, 2} :
          /\ st' = [n |-> NS, fail |-> f]
          /\ plan' = Append(plan, [goal |-> g, threads |-> t])

\* expected handling of a (series, applied, goal, broken) state
StateVerdict ==
  LET r == Resolve(st.series, st.applied, st.goal)
      InRange(i) == r.ok /\ i > r.first /\ i <= r.last
      brokenIn == {i \in {st.broken.pos, st.b2} : i # 0 /\ InRange(i)}
      fb == IF brokenIn = {} THEN 0 ELSE CHOOSE i \in brokenIn : \A j \in brokenIn : i <= j   \* the first broken patch file in the range
      ff == IF st.fail # 0 /\ InRange(st.fail) THEN st.fail ELSE 0                          \* the patch that does not apply, if in the range
      hit == fb # 0 /\ (ff = 0 \/ fb < ff)          \* a broken patch file is met before anything fails to apply: clean refusal
      stop == ff # 0 /\ ~hit                        \* otherwise the push ends at the patch that does not apply (what is behind it is never looked at)
      \* (C17 speaks of a broken patch file met *before* any patch has failed to apply, C06 of ranges whose patches all
      \* parse: with a broken patch file *behind* the failing patch neither says whether the run may refuse everything --
      \* which the parallel driver, loading the whole range first, does -- or ends at the failing patch like the sequential one)
  IN [refused |-> ~r.ok, first |-> r.first, last |-> r.last, hitsBroken |-> hit, stoppedAt |-> IF stop THEN ff ELSE 0,
      brokenBehind |-> stop /\ fb # 0,
      exit |-> IF ~r.ok \/ hit \/ stop THEN 1 ELSE 0,
      appliedAfter |-> IF ~r.ok \/ hit THEN Len(st.applied) ELSE IF stop THEN ff - 1 ELSE r.last]

\* C09 at the level of the model: composing invocations is the same as one invocation to the furthest goal
Composes == (Mode = "sessions" /\ plan # <<>>) =>
   LET s == Session(plan, 1, 0, st.fail) IN Push(0, s.far, st.fail).k = s.applied

Emit == EmitCases =>
  CASE Mode = "lines" /\ line # <<>> -> PrintT(ToJson([line |-> line, lead |-> lead, verdict |-> ParseLine(line, lead)]))
    [] Mode = "states" /\ ph = 1 -> PrintT(ToJson([st |-> st, verdict |-> StateVerdict]))
    [] Mode = "sessions" /\ plan # <<>> -> PrintT(ToJson([fail |-> st.fail, plan |-> plan, expect |-> Session(plan, 1, 0, st.fail)]))
    [] OTHER -> TRUE
=============================================================================
