CONSTANTS Sym = {"a","b"} MaxFile = 3 MaxCtx = 2 MaxChg = 1 MaxLimit = 2 EmitCases = FALSE
INIT Init
NEXT Next
INVARIANT AlgIsRef
INVARIANT ContentIsRecon
INVARIANT RollbackIsId
INVARIANT FuzzMonotone
INVARIANT Emit
CHECK_DEADLOCK FALSE
