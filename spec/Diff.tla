-------------------------------- MODULE Diff --------------------------------
(* What a unified diff *means*: edit scripts and the hunks diff derives from
   them (C01), and sequentially consistent splits of a script into one hunk
   per change group whose contexts may overlap (the `git add -p` shape, C03).

   An edit script is a sequence of ops [t \in {"K","D","I"}, s : Line]:
   Keep / Delete / Insert.  Old file A = lines of the K and D ops, new file
   B = lines of the K and I ops.  Normal form: inside a run of changes the
   deletions precede the insertions.  A line whose symbol ends in "~" has no
   final newline; it may only be the last line of a side. *)
EXTENDS Hunk

OldProj(ops) == SelectSeq(ops, LAMBDA o : o.t \in {"K", "D"})
NewProj(ops) == SelectSeq(ops, LAMBDA o : o.t \in {"K", "I"})
Lines(ops)   == [i \in 1..Len(ops) |-> ops[i].s]
FileA(ops)   == Lines(OldProj(ops))
FileB(ops)   == Lines(NewProj(ops))
ChgIdx(ops)  == {i \in 1..Len(ops) : ops[i].t # "K"}
NChanges(ops) == Cardinality(ChgIdx(ops))
Normal(ops)  == \A i \in 1..(Len(ops) - 1) : ~(ops[i].t = "I" /\ ops[i + 1].t = "D")

NoEol(s) == s \in {"a~", "b~", "c~"}
\* a line without final newline can only end a side
EolOk(lines) == \A i \in 1..(Len(lines) - 1) : ~NoEol(lines[i])
WellFormed(ops) == Normal(ops) /\ EolOk(FileA(ops)) /\ EolOk(FileB(ops))

CountOld(ops, upto) == Cardinality({j \in 1..upto : ops[j].t \in {"K", "D"}})
CountNew(ops, upto) == Cardinality({j \in 1..upto : ops[j].t \in {"K", "I"}})

(* Change groups for context width c: two changes belong to one hunk iff at
   most 2c kept lines lie between them (their contexts would touch). *)
Starts(ops, c) == {f \in ChgIdx(ops) :
                     \A p \in ChgIdx(ops) : p < f => (\E q \in ChgIdx(ops) : p < q /\ q < f) \/ f - p - 1 > 2 * c}
GroupEnd(ops, c, f) ==
  LET later == {g \in Starts(ops, c) : g > f}
      limit == IF later = {} THEN Len(ops) + 1 ELSE CHOOSE g \in later : \A h \in later : g <= h
  IN CHOOSE l \in ChgIdx(ops) : l < limit /\ \A k \in ChgIdx(ops) : k < limit => k <= l

\* the hunk for the group [f..l] with up to c lines of context on each side
HunkOf(ops, c, f, l) ==
  LET st   == Max2(1, f - c)
      en   == Min2(Len(ops), l + c)
      core == SubSeq(ops, f, l)
  IN [ pre  |-> Lines(Sub(ops, st, f - 1)),
       post |-> Lines(Sub(ops, l + 1, en)),
       del  |-> Lines(OldProj(core)),
       ins  |-> Lines(NewProj(core)),
       body |-> [i \in 1..Len(core) |-> <<core[i].t, core[i].s>>],   \* order of the lines in the patch text
       os   |-> CountOld(ops, st - 1),
       ns   |-> CountNew(ops, st - 1) ]

Sorted(S) == [i \in 1..Cardinality(S) |-> CHOOSE f \in S : Cardinality({g \in S : g < f}) = i - 1]

\* what `diff -U c` prints
Canonical(ops, c) == LET ss == Sorted(Starts(ops, c))
                     IN [i \in 1..Len(ss) |-> HunkOf(ops, c, ss[i], GroupEnd(ops, c, ss[i]))]

\* One hunk per maximal run of changes, each with up to c lines of context
\* taken from the kept lines around it only (context is matched against the
\* original file, so it cannot show a neighbouring hunk's changed lines):
\* contexts of neighbouring hunks overlap when fewer than 2c lines separate them.
SplitHunk(ops, c, f, l) ==
  LET before == {p \in ChgIdx(ops) : p < f}
      after  == {p \in ChgIdx(ops) : p > l}
      lo == IF before = {} THEN 1 ELSE (CHOOSE p \in before : \A q \in before : q <= p) + 1
      hi == IF after = {} THEN Len(ops) ELSE (CHOOSE p \in after : \A q \in after : p <= q) - 1
      st == Max2(lo, f - c)
      en == Min2(hi, l + c)
      core == SubSeq(ops, f, l)
  IN [ pre  |-> Lines(Sub(ops, st, f - 1)),
       post |-> Lines(Sub(ops, l + 1, en)),
       del  |-> Lines(OldProj(core)),
       ins  |-> Lines(NewProj(core)),
       body |-> [i \in 1..Len(core) |-> <<core[i].t, core[i].s>>],
       os   |-> CountOld(ops, st - 1),
       ns   |-> CountNew(ops, st - 1) ]
\* Splitting is meaningful when every hunk still gets its full context (or reaches a file
\* boundary): a hunk with less trailing than leading context is, by patch's anchoring rule,
\* tied to the end of the file.  So: at least c kept lines between consecutive change runs.
SplitValid(ops, c) == \A p \in ChgIdx(ops) : \A q \in ChgIdx(ops) :
                         (p < q /\ (\A r \in ChgIdx(ops) : ~(p < r /\ r < q)) /\ q - p > 1) => q - p - 1 >= c
Split(ops, c) == LET ss == Sorted(Starts(ops, 0))
                 IN [i \in 1..Len(ss) |-> SplitHunk(ops, c, ss[i], GroupEnd(ops, 0, ss[i]))]

(* File patch kind as the parser infers it (recognize_kind): a single hunk
   without context whose old side is "0,0" creates, whose new side is "0,0"
   deletes. *)
KindOf(hs) ==
  IF Len(hs) = 1 /\ hs[1].pre = <<>> /\ hs[1].post = <<>>
  THEN IF hs[1].del = <<>> /\ hs[1].ins # <<>> /\ hs[1].os = 0 THEN "C"
       ELSE IF hs[1].ins = <<>> /\ hs[1].del # <<>> /\ hs[1].ns = 0 THEN "D"
       ELSE "M"
  ELSE "M"
=============================================================================
