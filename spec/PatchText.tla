----------------------------- MODULE PatchText -----------------------------
(* The textual patch format at the level of syntactically meaningful lines.

   A patch text is a sequence of tokens (one token = one line):
     [k |-> "garb"]                      a line that means nothing anywhere
     [k |-> "empty"]                     an empty line
     [k |-> "minus", n |-> name]         --- name         (name "/dev/null" = no file)
     [k |-> "plus",  n |-> name]         +++ name
     [k |-> "git", o |-> name, n |-> name]   diff --git o n
     [k |-> "index", o |-> hash, n |-> hash] | "oldmode" | "newmode" | "delmode" | "newfilemode" (m |-> mode)
     "renfrom" | "rento" | "copyfrom" | "copyto" | "binary"
     [k |-> "hh", os, oc, ns, nc]        @@ -os,oc +ns,nc @@    (numbers as written, 1-based)
     [k |-> "badhh"]                     a line starting "@@ -" that is not a hunk header
     [k |-> "add" | "del" | "ctx" | "tabctx", s |-> line]    hunk body lines
     [k |-> "nonl"]                      \ No newline at end of file
   and the flag `trunc`: the last line lacks its newline.

   Parse  — transcription of parse_patch / parse_filepatch / parse_hunks /
            parse_hunk / build_filepatch / recognize_kind (parser.rs).
   Write  — transcription of the writer (writer.rs).
   The abstract file patch is
     [kind, old, new, ren, operm, nperm, ohash, nhash,
      hunks : Seq([os, ns, old, new, pre, suf])]     old/new = NULL for "no file";
      os/ns zero-based as in Hunk; old/new line sequences of the two sides, each line a
      pair <<text, hasFinalNewline>>. *)
EXTENDS Naturals, Integers, Sequences, FiniteSets

NULL == "/dev/null"
NONE == "none"

Max2p(a, b) == IF a > b THEN a ELSE b

\* first-character class of a token when it is read as a line of a hunk body
BodyClass(t) ==
  CASE t.k \in {"minus", "del"}  -> "del"
    [] t.k \in {"plus", "add"}   -> "add"
    [] t.k = "ctx"               -> "ctx"
    [] t.k = "tabctx"            -> "ctx"
    [] t.k = "empty"             -> "ctx"
    [] OTHER                     -> "bad"      \* garbage, headers, metadata, "\ No newline", ...

\* the line a body token contributes ("minus"/"plus" header look-alikes are ordinary lines)
BodyLine(t) ==
  CASE t.k = "minus" -> "-- " \o t.n
    [] t.k = "plus"  -> "++ " \o t.n
    [] t.k = "empty" -> ""
    [] OTHER         -> t.s

-----------------------------------------------------------------------------
(* parse_hunk: returns [ok, next, hunk] or [ok |-> FALSE, err] *)
TargetLine(line, count) == IF count = 0 THEN line ELSE Max2p(line - 1, 0)

RECURSIVE HunkLines(_, _, _, _, _, _)
\* h accumulates [old, new, pre, suf, seenChange]
HunkLines(toks, trunc, i, oc, nc, h) ==
  IF oc = 0 /\ nc = 0 THEN [ok |-> TRUE, next |-> i, h |-> h]
  ELSE IF i > Len(toks) THEN [ok |-> FALSE, err |-> "UnexpectedEndOfFile"]
  ELSE LET t == toks[i]
           c == BodyClass(t)
           \* the line itself must end in a newline unless a "\ No newline" follows;
           \* a truncated last line is an error either way
           lastTrunc == trunc /\ i = Len(toks)
           hasNonl == i < Len(toks) /\ toks[i + 1].k = "nonl"
           nonlTrunc == hasNonl /\ trunc /\ i + 1 = Len(toks)
           line == <<BodyLine(t), ~hasNonl>>          \* <<text, has final newline>>
           nxt == IF hasNonl THEN i + 2 ELSE i + 1
       IN IF c = "bad" THEN [ok |-> FALSE, err |-> "BadLineInHunk"]
          ELSE IF lastTrunc \/ nonlTrunc THEN [ok |-> FALSE, err |-> "UnexpectedEndOfFile"]
          ELSE IF c = "add" THEN
                 IF nc = 0 THEN [ok |-> FALSE, err |-> "BadLineInHunk"]
                 ELSE HunkLines(toks, trunc, nxt, oc, nc - 1,
                                [h EXCEPT !.new = Append(@, line), !.seen = TRUE, !.suf = 0])
          ELSE IF c = "del" THEN
                 IF oc = 0 THEN [ok |-> FALSE, err |-> "BadLineInHunk"]
                 ELSE HunkLines(toks, trunc, nxt, oc - 1, nc,
                                [h EXCEPT !.old = Append(@, line), !.seen = TRUE, !.suf = 0])
          ELSE IF oc = 0 \/ nc = 0 THEN [ok |-> FALSE, err |-> "BadLineInHunk"]
               ELSE HunkLines(toks, trunc, nxt, oc - 1, nc - 1,
                              [h EXCEPT !.old = Append(@, line), !.new = Append(@, line),
                                        !.pre = IF h.seen THEN @ ELSE @ + 1,
                                        !.suf = IF h.seen THEN @ + 1 ELSE @])

ParseHunk(toks, trunc, i) ==      \* precondition: toks[i].k = "hh"
  LET t == toks[i]
      r == HunkLines(toks, trunc, i + 1, t.oc, t.nc,
                     [old |-> <<>>, new |-> <<>>, pre |-> 0, suf |-> 0, seen |-> FALSE])
  IN IF trunc /\ i = Len(toks) THEN [ok |-> FALSE, err |-> "UnexpectedEndOfFile"]
     ELSE IF ~r.ok THEN r
     ELSE [ok |-> TRUE, next |-> r.next,
           hunk |-> [os |-> TargetLine(t.os, t.oc), ns |-> TargetLine(t.ns, t.nc),
                     old |-> r.h.old, new |-> r.h.new, pre |-> r.h.pre, suf |-> r.h.suf]]

RECURSIVE ParseHunks(_, _, _, _)
ParseHunks(toks, trunc, i, acc) ==
  IF i > Len(toks) THEN [ok |-> TRUE, next |-> i, hunks |-> acc]
  ELSE IF toks[i].k = "badhh" THEN [ok |-> FALSE, err |-> "BadHunkHeader"]
  ELSE IF toks[i].k # "hh" THEN [ok |-> TRUE, next |-> i, hunks |-> acc]
  ELSE LET r == ParseHunk(toks, trunc, i)
       IN IF ~r.ok THEN r ELSE ParseHunks(toks, trunc, r.next, Append(acc, r.hunk))

-----------------------------------------------------------------------------
(* metadata and build_filepatch *)
EmptyMeta == [old |-> NONE, new |-> NONE, renF |-> FALSE, renT |-> FALSE, newF |-> FALSE, delF |-> FALSE,
              operm |-> NONE, nperm |-> NONE, ohash |-> NONE, nhash |-> NONE]
HaveName(m) == m.old # NONE \/ m.new # NONE
Real(n) == n # NONE /\ n # NULL

RecognizeKind(hunks) ==
  IF Len(hunks) = 1 /\ hunks[1].pre = 0 /\ hunks[1].suf = 0
  THEN IF hunks[1].new = <<>> /\ hunks[1].ns = 0 /\ hunks[1].old # <<>> THEN "D"
       ELSE IF hunks[1].new # <<>> /\ hunks[1].old = <<>> /\ hunks[1].os = 0 THEN "C"
       ELSE "M"
  ELSE "M"

\* git's creation / deletion of a zero-length file: "new file mode" / "deleted file mode" and no hunk
\* (or one without lines); it becomes a creation / deletion with one empty hunk and /dev/null on the other side
EmptyHunk == [os |-> 0, ns |-> 0, old |-> <<>>, new |-> <<>>, pre |-> 0, suf |-> 0]
AboutEmptyFile(m, hunks) == /\ (m.newF \/ m.delF) /\ ~(m.renF /\ m.renT)
                            /\ (hunks = <<>> \/ (Len(hunks) = 1 /\ hunks[1].old = <<>> /\ hunks[1].new = <<>>))
Adjusted(m, hunks) == IF ~AboutEmptyFile(m, hunks) THEN m
                      ELSE IF m.newF THEN [m EXCEPT !.old = NULL] ELSE [m EXCEPT !.new = NULL]

\* build_filepatch returns None if necessary metadata is missing
CanBuild(m0, hunks) == LET m == Adjusted(m0, hunks)  ren == m.renF /\ m.renT IN
               IF ren THEN Real(m.old) /\ Real(m.new) ELSE Real(m.old) \/ Real(m.new)
Build(m0, hunks0) ==
  LET m == Adjusted(m0, hunks0)
      hunks == IF AboutEmptyFile(m0, hunks0) /\ hunks0 = <<>> THEN <<EmptyHunk>> ELSE hunks0
  IN [kind |-> IF AboutEmptyFile(m0, hunks0) THEN (IF m0.newF THEN "C" ELSE "D") ELSE RecognizeKind(hunks),
      old |-> IF Real(m.old) THEN m.old ELSE NULL,
      new |-> IF Real(m.new) THEN m.new ELSE NULL,
      ren |-> m.renF /\ m.renT, operm |-> m.operm, nperm |-> m.nperm, ohash |-> m.ohash, nhash |-> m.nhash,
      hunks |-> hunks]

\* file modes: a mode line carries exactly six octal digits; the parser keeps the number and the writer prints it
\* with six digits again.  Tokens carry the digits as written, file patches the number (digits without leading
\* zeros); a line with fewer than six digits is not a mode line.
LZModes == {<<"000644", "644">>, <<"040000", "40000">>, <<"000755", "755">>}
ModeVal(d) == IF \E p \in LZModes : p[1] = d THEN (CHOOSE p \in LZModes : p[1] = d)[2] ELSE d
ModePad(v) == IF \E p \in LZModes : p[2] = v THEN (CHOOSE p \in LZModes : p[2] = v)[1] ELSE v
ShortMode(d) == \E p \in LZModes : p[2] = d
GitMeta == {"index", "oldmode", "newmode", "delmode", "newfilemode", "renfrom", "rento", "copyfrom", "copyto", "binary"}
ModeToks == {"oldmode", "newmode", "delmode", "newfilemode"}
IsGitMeta(t) == t.k \in GitMeta /\ ~(t.k \in ModeToks /\ ShortMode(t.m))


(* parse_filepatch: result [r |-> "fp", next, fp] | [r |-> "end"] | [r |-> "err", err] *)
RECURSIVE MetaLoop(_, _, _, _, _, _)
MetaLoop(toks, trunc, i, git, ext, m) ==
  IF i > Len(toks) THEN
     \* EndOfPatch
     IF ext THEN (IF ~CanBuild(m, <<>>) THEN [r |-> "err", err |-> "MissingFilenameForHunk"]
                  ELSE [r |-> "fp", next |-> i, fp |-> Build(m, <<>>)])
     ELSE [r |-> "end"]
  ELSE LET t == toks[i] IN
  IF HaveName(m) /\ t.k \in {"hh", "badhh"} THEN
     \* leave the metadata loop: read the hunks
     LET hs == ParseHunks(toks, trunc, i, <<>>) IN
     IF ~hs.ok THEN [r |-> "err", err |-> hs.err]
     ELSE IF ~CanBuild(m, hs.hunks) THEN [r |-> "err", err |-> "MissingFilenameForHunk"]
     ELSE [r |-> "fp", next |-> hs.next, fp |-> Build(m, hs.hunks)]
  ELSE IF trunc /\ i = Len(toks) THEN [r |-> "err", err |-> "UnexpectedEndOfFile"]
  ELSE IF t.k = "git" THEN
     IF ext /\ CanBuild(m, <<>>) THEN [r |-> "fp", next |-> i, fp |-> Build(m, <<>>)]   \* not consumed
     ELSE MetaLoop(toks, trunc, i + 1, TRUE, ext, [EmptyMeta EXCEPT !.old = t.o, !.new = t.n])
  ELSE IF t.k = "minus" THEN MetaLoop(toks, trunc, i + 1, git, ext, [m EXCEPT !.old = t.n])
  ELSE IF t.k = "plus"  THEN MetaLoop(toks, trunc, i + 1, git, ext, [m EXCEPT !.new = t.n])
  ELSE IF git /\ IsGitMeta(t) THEN
     IF t.k = "binary" THEN [r |-> "err", err |-> "UnsupportedMetadata"]
     ELSE MetaLoop(toks, trunc, i + 1, git, TRUE,
            CASE t.k = "index"       -> [m EXCEPT !.ohash = t.o, !.nhash = t.n]
              [] t.k = "renfrom"     -> [m EXCEPT !.renF = TRUE]
              [] t.k = "rento"       -> [m EXCEPT !.renT = TRUE]
              [] t.k = "oldmode"     -> [m EXCEPT !.operm = ModeVal(t.m)]
              [] t.k = "delmode"     -> [m EXCEPT !.operm = ModeVal(t.m), !.delF = TRUE]
              [] t.k = "newmode"     -> [m EXCEPT !.nperm = ModeVal(t.m)]
              [] t.k = "newfilemode" -> [m EXCEPT !.nperm = ModeVal(t.m), !.newF = TRUE]
              [] OTHER               -> m)
  ELSE MetaLoop(toks, trunc, i + 1, git, ext, m)         \* garbage

ParseFilePatch(toks, trunc, i) == MetaLoop(toks, trunc, i, FALSE, FALSE, EmptyMeta)

RECURSIVE ParseFrom(_, _, _, _)
ParseFrom(toks, trunc, i, acc) ==
  LET r == ParseFilePatch(toks, trunc, i) IN
  IF r.r = "end" THEN [ok |-> TRUE, fps |-> acc]
  ELSE IF r.r = "err" THEN [ok |-> FALSE, err |-> r.err]
  ELSE ParseFrom(toks, trunc, r.next, Append(acc, r.fp))

Parse(toks, trunc) == ParseFrom(toks, trunc, 1, <<>>)

-----------------------------------------------------------------------------
(* Write: the writer's output as tokens (names are written at strip level 0) *)
HeaderNum(target, count) == IF count = 0 THEN target ELSE target + 1

\* the writer re-derives the -/+/space layout by walking to the closest equal pair of lines
RECURSIVE Closest(_, _, _)
\* smallest i (0-based sum), then smallest j: a[j+1] = b[i-j+1]
Closest(a, b, i) ==
  IF i >= Len(a) + Len(b) THEN <<Len(a), Len(b)>>
  ELSE LET js == {j \in 0..(IF i + 1 < Len(a) THEN i ELSE Len(a) - 1) : (i - j) < Len(b) /\ a[j + 1] = b[i - j + 1]}
       IN IF js = {} THEN Closest(a, b, i + 1)
          ELSE LET j == CHOOSE j \in js : \A k \in js : j <= k IN <<j, i - j>>

Tail0(s, n) == IF n >= Len(s) THEN <<>> ELSE SubSeq(s, n + 1, Len(s))

LineToks(k, line) ==
  IF ~line[2] THEN <<[k |-> k, s |-> line[1]], [k |-> "nonl"]>>
  ELSE <<[k |-> k, s |-> line[1]]>>

RECURSIVE BodyToks(_, _)
BodyToks(add, rem) ==
  IF add = <<>> /\ rem = <<>> THEN <<>>
  ELSE LET c  == Closest(add, rem, 0)          \* (add_count, remove_count)
           ac == c[1]  rc == c[2]
           dels == [i \in 1..rc |-> rem[i]]
           adds == [i \in 1..ac |-> add[i]]
           RECURSIVE Flat(_, _)
           Flat(k, ls) == IF ls = <<>> THEN <<>> ELSE LineToks(k, Head(ls)) \o Flat(k, Tail(ls))
           add2 == Tail0(add, ac)  rem2 == Tail0(rem, rc)
       IN Flat("del", dels) \o Flat("add", adds) \o
          (IF add2 # <<>> /\ rem2 # <<>>
           THEN LineToks("ctx", Head(rem2)) \o BodyToks(Tail(add2), Tail(rem2))
           ELSE BodyToks(add2, rem2))

HunkToks(h) == <<[k |-> "hh", os |-> HeaderNum(h.os, Len(h.old)), oc |-> Len(h.old),
                  ns |-> HeaderNum(h.ns, Len(h.new)), nc |-> Len(h.new)]>> \o BodyToks(h.new, h.old)

RECURSIVE AllHunkToks(_)
AllHunkToks(hs) == IF hs = <<>> THEN <<>> ELSE HunkToks(Head(hs)) \o AllHunkToks(Tail(hs))

WriteFP(fp) ==
  LET o == IF fp.old # NULL THEN fp.old ELSE fp.new
      n == IF fp.new # NULL THEN fp.new ELSE fp.old
  IN <<[k |-> "git", o |-> o, n |-> n]>>
     \o (IF fp.ren THEN <<[k |-> "renfrom"], [k |-> "rento"]>> ELSE <<>>)
     \o (IF fp.operm # NONE THEN <<[k |-> IF fp.kind = "D" THEN "delmode" ELSE "oldmode", m |-> ModePad(fp.operm)]>> ELSE <<>>)
     \o (IF fp.nperm # NONE THEN <<[k |-> IF fp.kind = "C" THEN "newfilemode" ELSE "newmode", m |-> ModePad(fp.nperm)]>> ELSE <<>>)
     \o (IF fp.ohash # NONE /\ fp.nhash # NONE THEN <<[k |-> "index", o |-> fp.ohash, n |-> fp.nhash]>> ELSE <<>>)
     \o <<[k |-> "minus", n |-> fp.old], [k |-> "plus", n |-> fp.new]>>
     \o AllHunkToks(fp.hunks)

RECURSIVE Write(_)
Write(fps) == IF fps = <<>> THEN <<>> ELSE WriteFP(Head(fps)) \o Write(Tail(fps))

(* C12: what must survive write-then-parse *)
HunkEq(a, b) == a.os = b.os /\ a.ns = b.ns /\ a.old = b.old /\ a.new = b.new
FPEq(a, b) == /\ a.kind = b.kind /\ a.old = b.old /\ a.new = b.new /\ a.ren = b.ren
              /\ a.operm = b.operm /\ a.nperm = b.nperm /\ a.ohash = b.ohash /\ a.nhash = b.nhash
              /\ Len(a.hunks) = Len(b.hunks) /\ \A i \in 1..Len(a.hunks) : HunkEq(a.hunks[i], b.hunks[i])
\* a file patch that carries nothing but its names: the parser builds it from lines it recognises and ignores
\* ("copy from"/"copy to"); the writer has nothing to write for it (known deviation from C12)
IsCopyOnly(fp) == fp.hunks = <<>> /\ ~fp.ren /\ fp.operm = NONE /\ fp.nperm = NONE /\ fp.ohash = NONE
PatchEq(p, q) == Len(p) = Len(q) /\ \A i \in 1..Len(p) : FPEq(p[i], q[i])
=============================================================================
