------------------------------ MODULE CString ------------------------------
(* File names in patch headers: the writer's quoting (writer.rs
   write_filename_to) and the parser's reading (parser.rs parse_filename,
   parse_c_string, parse_oct3, parse_filename_direct).  A byte is a number
   0..255, a name or a piece of header text a sequence of bytes.

   Ref:  ReadName(Quote(n) followed by a newline) = n for every name n, and
         the same for the spellings other tools write (GitQuote: one-letter
         escapes where C has them, octal otherwise; FullOctal).
   Alg:  Unq is parse_c_string transcribed branch by branch. *)
EXTENDS Naturals, Sequences, TLC

DQ == 34   BSL == 92   NL == 10
Oct(d) == 48 + d
Octal3(c) == <<BSL, Oct(c \div 64), Oct((c \div 8) % 8), Oct(c % 8)>>

RECURSIVE Flat(_, _)
Flat(Op(_), s) == IF s = <<>> THEN <<>> ELSE Op(Head(s)) \o Flat(Op, Tail(s))

\* ---- writer.rs write_filename_to ---------------------------------------------------------
IsPlain(n) == n # <<>> /\ \A i \in 1..Len(n) : n[i] > 32 /\ n[i] < 127 /\ n[i] # DQ /\ n[i] # BSL
EscByte(c) == IF c = DQ \/ c = BSL THEN <<BSL, c>>
              ELSE IF c < 32 \/ c >= 127 THEN Octal3(c)
              ELSE <<c>>
Quote(n) == IF IsPlain(n) THEN n ELSE <<DQ>> \o Flat(EscByte, n) \o <<DQ>>

\* ---- spellings written by other tools ----------------------------------------------------
\* escape letter -> byte (parse_c_string's table)
Letter == (97 :> 7) @@ (98 :> 8) @@ (102 :> 12) @@ (110 :> 10) @@ (114 :> 13) @@ (116 :> 9) @@ (118 :> 11) @@ (92 :> 92) @@ (34 :> 34)
LetterOf(c) == CHOOSE l \in DOMAIN Letter : Letter[l] = c
GitEsc(c) == IF \E l \in DOMAIN Letter : Letter[l] = c THEN <<BSL, LetterOf(c)>>
             ELSE IF c < 32 \/ c >= 127 THEN Octal3(c)
             ELSE <<c>>
GitQuote(n) == <<DQ>> \o Flat(GitEsc, n) \o <<DQ>>
OctEsc(c) == IF c = DQ \/ c = BSL \/ c < 33 \/ c >= 127 THEN Octal3(c) ELSE <<c>>
FullOctal(n) == <<DQ>> \o Flat(OctEsc, n) \o <<DQ>>

\* ---- parser.rs ----------------------------------------------------------------------------
IsOct3(s, i) == i + 2 <= Len(s) /\ s[i] \in 48..51 /\ s[i + 1] \in 48..55 /\ s[i + 2] \in 48..55
RECURSIVE Unq(_, _, _)
Unq(s, i, acc) ==
  IF i > Len(s) THEN [ok |-> FALSE, err |-> "UnexpectedEndOfFile"]
  ELSE IF s[i] = BSL THEN
       IF i + 1 <= Len(s) /\ s[i + 1] \in DOMAIN Letter THEN Unq(s, i + 2, Append(acc, Letter[s[i + 1]]))
       ELSE IF IsOct3(s, i + 1) THEN Unq(s, i + 4, Append(acc, (s[i + 1] - 48) * 64 + (s[i + 2] - 48) * 8 + (s[i + 3] - 48)))
       ELSE [ok |-> FALSE, err |-> "BadSequence"]
  ELSE IF s[i] = DQ THEN [ok |-> TRUE, name |-> acc, next |-> i + 1]
  ELSE IF s[i] = NL THEN [ok |-> FALSE, err |-> "UnexpectedEndOfLine"]
  ELSE Unq(s, i + 1, Append(acc, s[i]))
ParseCString(s) == IF s = <<>> \/ s[1] # DQ THEN [ok |-> FALSE, err |-> "NoMatch"] ELSE Unq(s, 2, <<>>)

IsWhitespace(c) == c \in {32, 12, 10, 13, 9, 11}
RECURSIVE UpToWs(_, _)
UpToWs(s, i) == IF i > Len(s) \/ IsWhitespace(s[i]) THEN SubSeq(s, 1, i - 1) ELSE UpToWs(s, i + 1)
\* parse_filename (after leading blanks): a C string if that parses, otherwise the bytes up to white space
ReadName(s) == LET r == ParseCString(s) IN IF r.ok THEN r.name ELSE UpToWs(s, 1)

RoundTrip(n) == /\ ReadName(Quote(n) \o <<NL>>) = n
                /\ ReadName(GitQuote(n) \o <<NL>>) = n
                /\ ReadName(FullOctal(n) \o <<NL>>) = n
=============================================================================
