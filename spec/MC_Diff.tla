------------------------------ MODULE MC_Diff ------------------------------
(* C01 at design level: for every edit script within bounds and every context
   width, applying Canonical(script, c) to A with fuzz 0 gives exactly B with
   every hunk at offset 0, and the reverse direction on B gives A.  C03: the
   Split family is applied correctly too.  Every (A, B, c, hunks) is emitted
   for rendering in every dialect and replay through the real parser + apply. *)
EXTENDS Diff, ApplyFile, Json, TLC
CONSTANTS Sym, MaxOps, MaxChanges, MaxCtx, EmitCases, WithNoEol
VARIABLES script

AllSym == IF WithNoEol THEN Sym \cup {"a~", "b~"} ELSE Sym
Ops == [t : {"K", "D", "I"}, s : AllSym]

Init == script = <<>>
Next == /\ Len(script) < MaxOps
        /\ \E o \in Ops : /\ script' = Append(script, o)
                          /\ WellFormed(script') /\ NChanges(script') <= MaxChanges

A == FileA(script)
B == FileB(script)
\* strip the rendering-only field before handing hunks to the application model
Plain(hs) == [i \in 1..Len(hs) |-> [pre |-> hs[i].pre, del |-> hs[i].del, ins |-> hs[i].ins,
                                     post |-> hs[i].post, os |-> hs[i].os, ns |-> hs[i].ns]]
FPOf(hs) == [kind |-> KindOf(hs), hunks |-> Plain(hs), hasOld |-> TRUE, hasNew |-> TRUE, operm |-> NoPerm, nperm |-> NoPerm]
St(c) == [content |-> c, deleted |-> FALSE, perms |-> NoPerm]
Exact(rep, hs, dir) == \A i \in 1..Len(hs) : rep.hunks[i].ok /\ rep.hunks[i].fuzz = 0
                           /\ rep.hunks[i].line = (IF dir = "F" THEN hs[i].os ELSE hs[i].ns)

\* The top-of-file ambiguity of context-free hunks (DESIGN section 6, D2): a "-0,0" insertion
\* into a non-empty file / a "+0,0" deletion that leaves lines is indistinguishable from a
\* creation / deletion of the whole file.
Ambiguous(hs) == \/ (KindOf(hs) = "C" /\ A # <<>>)
                 \/ (KindOf(hs) = "D" /\ B # <<>>)

DiffApplies == NChanges(script) > 0 => \A c \in 0..MaxCtx :
    LET hs == Canonical(script, c)
        f  == Apply(St(A), FPOf(hs), "F", 0)
        r  == Apply(St(B), FPOf(hs), "R", 0)
    IN Ambiguous(hs) \/
       (/\ f.st.content = B /\ Exact(f.rep, hs, "F")
        /\ r.st.content = A /\ Exact(r.rep, hs, "R"))

SplitApplies == NChanges(script) > 0 => \A c \in 1..MaxCtx : SplitValid(script, c) =>
    LET hs == Split(script, c)
        f  == Apply(St(A), FPOf(hs), "F", 0)
    IN f.st.content = B /\ Exact(f.rep, hs, "F")

Emit == (EmitCases /\ NChanges(script) > 0) =>
    PrintT(ToJson([A |-> A, B |-> B,
                   canon |-> [c \in 1..(MaxCtx + 1) |-> Canonical(script, c - 1)],
                   split |-> [c \in 1..MaxCtx |-> IF SplitValid(script, c) THEN Split(script, c) ELSE <<>>]]))
=============================================================================
