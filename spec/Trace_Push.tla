----------------------------- MODULE Trace_Push -----------------------------
(* Implementation -> specification: hook traces recorded from the real binary
   (forced or free schedules, threads >= 2) are behaviours of Push.tla.

   Input (IOEnv.RQ_TRACES, ndjson): one line per run
      [id, scn : scenario record incl. `assign`, ev : Seq(event)]
   An event is [w, ev, ...]; w names the worker by a file it owns, so the model
   worker is scn.assign[w] (every connected component of file names is a model
   worker: a real thread that serves several components is an interleaving of
   them).  Each event is an enabled Push action whose nondeterministic choice
   is pinned by the logged fields, or a stutter with a check; actions without a
   hook are silent steps.  A trace is accepted when all events are consumed and
   the model has terminated; all invariants of Push are evaluated on the way. *)
EXTENDS Push, Json, IOUtils
VARIABLES t, l

Rec == ndJsonDeserialize(IOEnv.RQ_TRACES)
T == Rec[t].ev
Ev == T[l]
\* the model worker of an event is the component of the file the event is about (a real thread may
\* serve several components, so the thread's own name is not used)
WorkerOfFile(f) == scn.assign[f]

IsEv(k) == l <= Len(T) /\ Ev.ev = k
Adv == l' = l + 1 /\ UNCHANGED t
Stutter == UNCHANGED vars

\* ---- events that are model steps -------------------------------------------------------------
TConsider == /\ IsEv("consider") /\ Adv
             /\ LET w == WorkerOfFile(Ev.file) IN
                /\ wpc[w] = "apply" /\ queue[w] # <<>> /\ Head(queue[w]).idx = Ev.idx + 1 /\ FPPath(Head(queue[w]).fp) = Ev.file
                /\ Consider(w)
\* the report of apply_one_file_patch must be what the model computed
TApplied == /\ IsEv("applied") /\ Adv /\ ~scn.seq /\ Stutter
            /\ stack[WorkerOfFile(Ev.target)] # <<>>
            /\ LET st == stack[WorkerOfFile(Ev.target)][Len(stack[WorkerOfFile(Ev.target)])] IN
               st.idx = Ev.idx + 1 /\ st.target = Ev.target /\ st.final = Ev.final /\ (st.failed = {}) = Ev.ok
TRefused == IsEv("rename-refused") /\ Adv /\ ~scn.seq /\ Stutter
\* the sequential driver has no separate `consider` point: `applied` is the whole step
TSeqApplied == /\ IsEv("applied") /\ Adv /\ scn.seq
               /\ LET w == WorkerOfFile(Ev.target) IN
                  /\ wpc[w] = "apply" /\ queue[w] # <<>> /\ Head(queue[w]).idx = Ev.idx + 1
                  /\ Consider(w)
                  /\ Len(stack'[w]) = Len(stack[w]) + 1
                  /\ LET st == stack'[w][Len(stack'[w])] IN
                     st.target = Ev.target /\ st.final = Ev.final /\ (st.failed = {}) = Ev.ok
TSeqRefused == /\ IsEv("rename-refused") /\ Adv /\ scn.seq
               /\ LET w == WorkerOfFile(Ev.target) IN
                  /\ wpc[w] = "apply" /\ queue[w] # <<>> /\ Head(queue[w]).idx = Ev.idx + 1
                  /\ Consider(w) /\ stack'[w] = stack[w]
TApplyDone == IsEv("apply-done") /\ Adv /\ scn.seq /\ BarrierApply
TPhase == IsEv("phase") /\ Ev.name = "save" /\ Adv /\ ~scn.seq /\ BarrierApply
TPhaseApply == IsEv("phase") /\ Ev.name = "apply" /\ Adv /\ Stutter
TRejCreate == /\ IsEv("rej-create") /\ Adv
              /\ mainpc = "rejects" /\ \E r \in rejq : r.path = Ev.target /\ (\A q \in rejq : q.path = r.path => r.n <= q.n)
                                                        /\ RejStep /\ rejq' = rejq \ {r}
TUnlink == /\ IsEv("unlink") /\ Adv
           /\ LET w == WorkerOfFile(Ev.path) IN
              /\ wpc[w] = "save" /\ cur[w].stage = "none" /\ mem[w][Ev.path].loaded /\ mem[w][Ev.path].existed
              /\ SaveStep(w)
              /\ ~files'[Ev.path].ex /\ (mem'[w][Ev.path].loaded = FALSE \/ cur'[w].p = Ev.path)
TMkdir == /\ IsEv("mkdirp") /\ Adv
          /\ \E w \in Workers : wpc[w] = "save" /\ cur[w].stage = "mkdir" /\ ParentDir(cur[w].p) = Ev.path /\ SaveStep(w)
TCreate == /\ IsEv("create") /\ Adv
           /\ LET w == WorkerOfFile(Ev.path) IN wpc[w] = "save" /\ cur[w].stage = "create" /\ cur[w].p = Ev.path /\ SaveStep(w)
TBackup == /\ IsEv("bak-create") /\ Adv
           /\ IF LET w == WorkerOfFile(Ev.file) IN
                   wpc[w] = "backup" /\ stack[w] # <<>> /\ stack[w][Len(stack[w])].idx = Ev.patch /\ stack[w][Len(stack[w])].target = Ev.file
              THEN BackupStep(WorkerOfFile(Ev.file))
              ELSE \* the second file of a rename's backup, written by the step just taken
                   /\ \E b \in bak : b.patch = Ev.patch /\ b.path = Ev.file
                   /\ Stutter
TReaddir == /\ IsEv("readdir") /\ Adv
            /\ IF Ev.path = "" THEN Stutter
               ELSE IF Ev.path \in cleanq THEN mainpc = "clean" /\ CleanStep /\ cleanq' = cleanq \ {Ev.path}
               \* several workers may have listed the same directory: the later visits find it gone or non-empty
               ELSE mainpc \in {"clean", "rejects", "record"} /\ Stutter
TFinish == IsEv("pc-mkdir") /\ Adv /\ Finish
TAppend == IsEv("append") /\ Adv /\ Stutter /\ mainpc = "exit" /\ applied > 0
\* events without a model counterpart of their own (sub-steps of an operation already taken)
Noise == {"chmod", "write", "rej-write", "bak-mkdirp", "bak-write", "rmdir", "applied-open", "applied-write",
          "worker-done", "rolled-past", "load-patch"}
TNoise == l <= Len(T) /\ Ev.ev \in Noise /\ Adv /\ Stutter

\* ---- silent steps: Push actions that have no hook event; each strictly advances a worker ------
\* A real thread that met an error stops for all the name components it serves: their remaining file patches are in
\* patches not before the one with the error, so they either do not matter (the push ends with the error) or would be
\* rolled back again (an earlier patch fails): the model worker simply stops.
SkipAfterError(w) ==
  /\ wpc[w] = "apply" /\ queue[w] # <<>>
  /\ \E v \in Workers : cur[v].eidx # 0 /\ Head(queue[w]).idx >= cur[v].eidx
  /\ wpc' = [wpc EXCEPT ![w] = "applied"]
  /\ UNCHANGED <<scn, files, dirs, rej, bak, applied, exit, nextIno, written, queue, mem, stack, cur, err, earliest, final, cleanq, rejq, mainpc, ops, faulted>>
StopCond(w) == IF queue[w] = <<>> THEN TRUE ELSE Head(queue[w]).idx > earliest
Silent ==
  /\ UNCHANGED <<t, l>>
  /\ \/ \E w \in Workers : wpc[w] = "apply" /\ StopCond(w) /\ Consider(w)
     \/ \E w \in Workers : RollPast(w)
     \/ \E w \in Workers : /\ wpc[w] = "save" /\ cur[w].stage = "none" /\ SaveStep(w)
                           /\ (Unsaved(w) = {} \/ \E p \in Unsaved(w) : ~mem[w][p].existed /\ (mem'[w][p].loaded = FALSE \/ cur'[w].p = p))
     \/ \E w \in Workers : /\ wpc[w] = "backup" /\ BackupStep(w)
                           /\ (~DoBackup \/ stack[w] = <<>> \/ stack[w][Len(stack[w])].idx < DownTo)
     \/ Join
     \/ (ApplyError /\ BarrierApply)
     \/ \E w \in Workers : SkipAfterError(w)
     \* the single-threaded driver returns the error of a file patch at once: there is no event for that step
     \/ \E w \in Workers : scn.seq /\ wpc[w] = "apply" /\ queue[w] # <<>> /\ Head(queue[w]).fp.kind = "E" /\ Consider(w)            \* the push ends with a worker's error: there is no save phase event
     \/ (mainpc = "clean" /\ cleanq = {} /\ CleanStep)
     \/ (mainpc = "rejects" /\ rejq = {} /\ RejStep)
     \/ (mainpc = "record" /\ scn.cfg.dry /\ Finish)
TInit == \E k \in 1..Len(Rec) : t = k /\ l = 1 /\ InitWith(Rec[k].scn)
TNext == \/ TConsider \/ TApplied \/ TRefused \/ TSeqApplied \/ TSeqRefused \/ TApplyDone \/ TPhase \/ TPhaseApply \/ TRejCreate \/ TUnlink \/ TMkdir \/ TCreate \/ TBackup
         \/ TReaddir \/ TFinish \/ TAppend \/ TNoise \/ Silent

\* acceptance: the whole trace is consumed and the model run has terminated with the run's exit status
Accepted == l = Len(T) + 1 /\ Terminated
Report == Accepted => PrintT(<<"ACCEPTED", Rec[t].id, exit>>)
\* progress marker for diagnosing a rejection: how far each trace got
Progress == PrintT(<<"AT", Rec[t].id, l>>)
=============================================================================
