-------------------------------- MODULE Names --------------------------------
(* File names of a patch: path components, -pN stripping (FilePatch::strip on
   std::path::Path::components) and the rule that decides whether a name may
   be used at all (C19).  A name is a sequence of textual components; "/" as
   first component stands for an absolute path. *)
EXTENDS Naturals, Sequences, FiniteSets

\* Path::components(): interior and trailing "." disappear, a leading "." stays
Normalise(name) == LET idx == {i \in 1..Len(name) : name[i] # "." \/ i = 1}
                       RECURSIVE Pick(_)
                       Pick(i) == IF i > Len(name) THEN <<>>
                                  ELSE (IF i \in idx THEN <<name[i]>> ELSE <<>>) \o Pick(i + 1)
                   IN Pick(1)
Strip(name, n) == LET c == Normalise(name) IN IF n >= Len(c) THEN <<>> ELSE SubSeq(c, n + 1, Len(c))
Unsafe(c) == c # <<>> /\ (c[1] = "/" \/ \E i \in 1..Len(c) : c[i] = "..")
\* where a safe stripped name lands, relative to the working directory (leading "." dropped)
Lands(c) == IF c # <<>> /\ c[1] = "." THEN Tail(c) ELSE c
=============================================================================
