---------------------------- MODULE Distributor ----------------------------
(* Assignment of file names to worker threads (parallel.rs FilenameDistributor).

   Ref — names are nodes, every add(x, y) with y # NONE an edge; two names in
         one connected component must get the same thread (C07).
   Alg — transcription of add / build: an index per name in order of first
         appearance, a parent vector `cc` (cc[i] <= i), union by linking the
         larger root under the smaller, one ascending compression pass, then
         root index modulo the thread count.  Indexes are 1-based here. *)
EXTENDS Naturals, Sequences, FiniteSets
CONSTANTS Names, NONE

\* ---- Ref ------------------------------------------------------------------
Edges(as) == {<<as[i][1], as[i][2]>> : i \in {j \in 1..Len(as) : as[j][2] # NONE}}
RECURSIVE Grow(_, _)
Grow(S, E) == LET T == S \cup {e[2] : e \in {x \in E : x[1] \in S}} \cup {e[1] : e \in {x \in E : x[2] \in S}}
              IN IF T = S THEN S ELSE Grow(T, E)
Component(a, as) == Grow({a}, Edges(as))
Same(a, b, as) == b \in Component(a, as)
Mentioned(as) == {as[i][1] : i \in 1..Len(as)} \cup ({as[i][2] : i \in 1..Len(as)} \ {NONE})

\* ---- Alg ------------------------------------------------------------------
RECURSIVE Root(_, _)
Root(cc, i) == IF cc[i] = i THEN i ELSE Root(cc, cc[i])

Lookup(st, x) ==      \* entry(x).or_insert(next_index) + push
  IF st.idx[x] # 0 THEN [st |-> st, i |-> st.idx[x]]
  ELSE LET n == Len(st.cc) + 1
       IN [st |-> [idx |-> [st.idx EXCEPT ![x] = n], cc |-> Append(st.cc, n)], i |-> n]

AddOne(st, x, y) ==
  LET a == Lookup(st, x) IN
  IF y = NONE THEN a.st
  ELSE LET b  == Lookup(a.st, y)
           rx == Root(b.st.cc, a.i)
           ry == Root(b.st.cc, b.i)
       IN IF rx < ry THEN [b.st EXCEPT !.cc[ry] = rx] ELSE [b.st EXCEPT !.cc[rx] = ry]

RECURSIVE AddAll(_, _, _)
AddAll(st, as, i) == IF i > Len(as) THEN st ELSE AddAll(AddOne(st, as[i][1], as[i][2]), as, i + 1)

RECURSIVE Compress(_, _)
Compress(cc, i) == IF i > Len(cc) THEN cc
                   ELSE Compress(IF cc[i] # i THEN [cc EXCEPT ![i] = cc[cc[i]]] ELSE cc, i + 1)

Empty == [idx |-> [n \in Names |-> 0], cc |-> <<>>]

\* build: name -> thread (0-based thread ids; cc indexes are 0-based in the code)
Build(as, threads) ==
  LET st == AddAll(Empty, as, 1)
      cc == Compress(st.cc, 1)
  IN [n \in {m \in Names : st.idx[m] # 0} |-> (cc[st.idx[n]] - 1) % threads]

\* ---- C07 -------------------------------------------------------------------
SameWorker(m, as) == \A a \in DOMAIN m : \A b \in DOMAIN m : Same(a, b, as) => m[a] = m[b]
\* with at least as many threads as names the classes are exactly the components
ExactWithManyThreads(as) == LET m == Build(as, Cardinality(Names) + 1)
                            IN \A a \in DOMAIN m : \A b \in DOMAIN m : (m[a] = m[b]) <=> Same(a, b, as)
=============================================================================
