------------------------------ MODULE MC_Tokens ------------------------------
(* C11 at the level of syntactically meaningful lines: every sequence of up to
   MaxLen tokens over the alphabet below, with and without a truncated last
   line.  TLC evaluating Parse on each of them without an evaluation error
   shows the case analysis of the parser model has no hole (it always yields a
   patch or a named error); each sequence is emitted with the model's verdict
   and replayed, in several byte spellings, truncated at every offset and
   byte-mutated, into the real parser. *)
EXTENDS PatchText, Json, TLC
CONSTANTS MaxLen, EmitCases, Prefix
VARIABLES toks, trunc

HUGE == 1000000000
Alphabet == {
  [k |-> "garb"], [k |-> "empty"],
  [k |-> "minus", n |-> "a/x"], [k |-> "minus", n |-> NULL], [k |-> "plus", n |-> "b/x"], [k |-> "plus", n |-> NULL],
  [k |-> "git", o |-> "a/x", n |-> "b/y"],
  [k |-> "index", o |-> "12ab", n |-> "34cd"], [k |-> "newmode", m |-> "100755"], [k |-> "delmode", m |-> "100644"], [k |-> "newfilemode", m |-> "100644"],
  [k |-> "renfrom"], [k |-> "rento"], [k |-> "binary"], [k |-> "copyfrom"], [k |-> "oldmode", m |-> "644"], [k |-> "newmode", m |-> "000755"],
  [k |-> "hh", os |-> 1, oc |-> 1, ns |-> 1, nc |-> 1], [k |-> "hh", os |-> 0, oc |-> 0, ns |-> 1, nc |-> 1],
  [k |-> "hh", os |-> 3, oc |-> 0, ns |-> 3, nc |-> 0], [k |-> "hh", os |-> 1, oc |-> HUGE, ns |-> 1, nc |-> 2],
  [k |-> "badhh"],
  [k |-> "add", s |-> "p"], [k |-> "del", s |-> "p"], [k |-> "ctx", s |-> "c"], [k |-> "tabctx", s |-> "c"],
  [k |-> "nonl"] }

\* prefixes selectable from the .cfg (Prefix <- P_xxx)
TMinus == [k |-> "minus", n |-> "a/x"]
TPlus  == [k |-> "plus", n |-> "b/x"]
TGit   == [k |-> "git", o |-> "a/x", n |-> "b/y"]
THH11  == [k |-> "hh", os |-> 1, oc |-> 1, ns |-> 1, nc |-> 1]
THH22  == [k |-> "hh", os |-> 1, oc |-> 2, ns |-> 1, nc |-> 2]
P_empty == <<>>
P_names == <<TMinus, TPlus>>
P_git == <<TGit>>
P_git_index == <<TGit, [k |-> "index", o |-> "12ab", n |-> "34cd"]>>
P_in_hunk == <<TMinus, TPlus, THH22>>
P_after_create == <<TMinus, TPlus, [k |-> "hh", os |-> 0, oc |-> 0, ns |-> 1, nc |-> 1], [k |-> "add", s |-> "p"]>>
P_after_hunk == <<TMinus, TPlus, THH11, [k |-> "del", s |-> "p"], [k |-> "add", s |-> "p"]>>

\* a hunk whose body has one line more on one side than its header announces, with lines of the other side still to come
P_miscount_add == <<TMinus, TPlus, [k |-> "hh", os |-> 1, oc |-> 3, ns |-> 1, nc |-> 2], [k |-> "ctx", s |-> "c"], [k |-> "add", s |-> "p"], [k |-> "add", s |-> "p"]>>
P_miscount_del == <<TMinus, TPlus, [k |-> "hh", os |-> 1, oc |-> 2, ns |-> 1, nc |-> 3], [k |-> "ctx", s |-> "c"], [k |-> "del", s |-> "p"], [k |-> "del", s |-> "p"]>>

Init == toks = Prefix /\ trunc = FALSE
Next == \/ /\ Len(toks) < Len(Prefix) + MaxLen /\ ~trunc /\ \E t \in Alphabet : toks' = Append(toks, t) /\ UNCHANGED trunc
        \/ /\ toks # <<>> /\ ~trunc /\ trunc' = TRUE /\ UNCHANGED toks

Res == Parse(toks, trunc)
\* totality of the model: the result is a patch or one of the named errors
Errors == {"UnsupportedMetadata", "MissingFilenameForHunk", "UnexpectedEndOfFile", "BadHunkHeader", "BadLineInHunk"}
Total == IF Res.ok THEN Len(Res.fps) >= 0 ELSE Res.err \in Errors
Emit == EmitCases => PrintT(ToJson([toks |-> toks, trunc |-> trunc, ok |-> Res.ok,
                                    err |-> IF Res.ok THEN "" ELSE Res.err, nfps |-> IF Res.ok THEN Len(Res.fps) ELSE 0]))
=============================================================================
