------------------------------ MODULE MC_Kinds ------------------------------
(* C04 at file-patch level: every file state (content, absent/present,
   permissions) x every file patch kind (modify with any subset of hunks
   applying, create, delete — with the file named on one or both header
   lines — with or without mode change) x direction x fuzz limit, and LIFO
   stacks of Depth such applications on the same file.

   Invariant (design level): RollbackStack o ApplyStack = identity and never
   PANIC.  Every case is emitted for replay into the real code. *)
EXTENDS ApplyFile, Json, TLC
CONSTANTS Sym, MaxFile, MaxCtx, Depth, Small, EmitCases
VARIABLES st0, fps, ph

Perms == {NoPerm, "644", "755"}
PermPairs == IF Small THEN {<<NoPerm, NoPerm>>, <<NoPerm, "755">>}
             ELSE {<<NoPerm, NoPerm>>, <<NoPerm, "755">>, <<"644", "755">>, <<"755", NoPerm>>}
Contents == SeqsUpTo(Sym, MaxFile)
NonEmpty == Contents \ {<<>>}
States == {[content |-> c, deleted |-> FALSE, perms |-> p] : c \in Contents, p \in Perms}
            \cup {[content |-> <<>>, deleted |-> TRUE, perms |-> NoPerm]}

H(pre, del, ins, post, os) == [pre |-> pre, del |-> del, ins |-> ins, post |-> post, os |-> os, ns |-> os]
MHunks == {H(x.pre, x.del, x.ins, x.post, x.os) :
             x \in {y \in [pre : SeqsUpTo(Sym, MaxCtx), del : SeqsUpTo(Sym, 1), ins : SeqsUpTo(Sym, 1),
                           post : SeqsUpTo(Sym, MaxCtx), os : 0..MaxFile] : Len(y.del) + Len(y.ins) > 0}}
FP(kind, hunks, ho, hn, pp) == [kind |-> kind, hunks |-> hunks, hasOld |-> ho, hasNew |-> hn, operm |-> pp[1], nperm |-> pp[2]]
ModifyFPs == {FP("M", <<h>>, TRUE, TRUE, pp) : h \in MHunks, pp \in PermPairs}
               \cup (IF Small THEN {} ELSE
                     {FP("M", <<h1, h2>>, TRUE, TRUE, <<NoPerm, NoPerm>>) :
                          h1 \in {h \in MHunks : h.os = 0 /\ Len(h.pre) = 0}, h2 \in {h \in MHunks : h.os = 1 /\ Len(h.post) = 0}})
CreateFPs == {FP("C", <<H(<<>>, <<>>, c, <<>>, 0)>>, ho, TRUE, pp) : c \in Contents, ho \in BOOLEAN, pp \in PermPairs}   \* incl. the zero-length file
DeleteFPs == {FP("D", <<H(<<>>, c, <<>>, <<>>, 0)>>, TRUE, hn, pp) : c \in Contents, hn \in BOOLEAN, pp \in PermPairs}
Universe == ModifyFPs \cup CreateFPs \cup DeleteFPs
Steps == {[fp |-> fp, dir |-> d, limit |-> l] : fp \in Universe, d \in {"F", "R"}, l \in (IF Small THEN {1} ELSE {0, 1})}

Init == st0 = [content |-> <<>>, deleted |-> TRUE, perms |-> NoPerm] /\ fps = <<>> /\ ph = 0
Next == \/ /\ ph = 0 /\ ph' = 1 /\ UNCHANGED fps /\ \E s \in States : st0' = s
        \/ /\ ph >= 1 /\ ph <= Depth /\ ph' = ph + 1 /\ UNCHANGED st0
           /\ \E s \in Steps : fps' = Append(fps, s)

RollbackIsId == ph >= 2 =>
    LET a == ApplyStack(st0, fps, 1, <<>>)
    IN RollbackStack(a.st, fps, a.reps, Len(fps)) = st0

\* states after each application, as the algorithm model predicts them (diagnostic for the replay)
RECURSIVE After(_, _)
After(st, i) == IF i > Len(fps) THEN <<>>
                ELSE LET r == Apply(st, fps[i].fp, fps[i].dir, fps[i].limit)
                     IN <<[st |-> r.st, failed |-> AnyFailed(r.rep.hunks)]>> \o After(r.st, i + 1)
Emit == (EmitCases /\ ph = Depth + 1) => PrintT(ToJson([st |-> st0, fps |-> fps, after |-> After(st0, 1)]))
=============================================================================
