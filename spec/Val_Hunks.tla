------------------------------ MODULE Val_Hunks ------------------------------
(* Implementation -> specification (B2): every record is one observed
   application of a Modify file patch by the real TextFilePatch::apply:
      [F, hs, dir, lim, rep : Seq([ok, line, fuzz]), out : Seq(Line)]
   The record is judged against the property-level relations only:
      C02  every hunk report is an AllowedOutcome given the reports before it
      C03  out = Reconstruct(F, hs, rep, dir)   (out = <<"PANIC">> never is)
   One verdict line is printed per record. *)
EXTENDS ApplyFile, Json, IOUtils, TLC
VARIABLE i
Rec == ndJsonDeserialize(IOEnv.RQ_RECORDS)

RECURSIVE C02Ok(_, _, _, _, _, _, _, _)
C02Ok(F, hs, rs, dir, lim, k, prevOff, frozen) ==
  IF k > Len(hs) THEN TRUE
  ELSE LET r  == rs[k]
           v  == View(hs[k], dir, IF r.ok THEN r.fuzz ELSE 0)
           po == IF r.ok THEN r.line - v.os ELSE prevOff
           fr == IF r.ok THEN CoreEnd(v, r.line) ELSE frozen
       IN /\ (r.ok => r.fuzz \in Levels(hs[k], lim))
          /\ AllowedOutcome(F, hs[k], dir, lim, prevOff, frozen, r)
          /\ C02Ok(F, hs, rs, dir, lim, k + 1, po, fr)

\* reports must be structurally usable before Reconstruct may look at them
Usable(F, hs, rs, dir, lim) ==
  /\ Len(rs) = Len(hs)
  /\ \A k \in 1..Len(rs) : rs[k].ok =>
        /\ rs[k].fuzz \in Levels(hs[k], lim) /\ rs[k].line >= 0
        /\ rs[k].line + Len(View(hs[k], dir, rs[k].fuzz).old) <= Len(F)

Verdict(r) ==
  LET usable == Usable(r.F, r.hs, r.rep, r.dir, r.lim)
  IN [id  |-> r.id,
      c02 |-> usable /\ C02Ok(r.F, r.hs, r.rep, r.dir, r.lim, 1, 0, -1),
      c03 |-> usable /\ r.out = Reconstruct(r.F, r.hs, r.rep, r.dir)]

Init == i = 0
Next == i = 0 /\ \E k \in 1..Len(Rec) : i' = k
Emit == i > 0 => PrintT(ToJson(Verdict(Rec[i])))
=============================================================================
