-------------------------------- MODULE Cmd --------------------------------
(* The command layer of `rapidquilt push` (cmd.rs): the series-file grammar,
   the consistency check of .pc/applied-patches, goal resolution, and how
   invocations compose.  Ref for C09, C16 (options), C17. *)
EXTENDS Naturals, Integers, Sequences, FiniteSets

DefaultStrip == 1

(* ---- series line -----------------------------------------------------------
   A line is a sequence of words.  Word kinds:
     [k |-> "name", s]      a plain word (patch file name / free argument)
     [k |-> "hash"]         a word starting with '#'
     [k |-> "p", v]         -pN            (v = N, or -1 for a non-numeric / negative value)
     [k |-> "popt"]         -p  (the value is the next word)
     [k |-> "strip", v]     --strip=N
     [k |-> "stripopt"]     --strip (value in the next word)
     [k |-> "R"]            -R or --reverse
     [k |-> "Rp", v]        -RpN   (flag and option in one word)
     [k |-> "bad"]          an option getopts does not know
     [k |-> "num", v]       a bare number
   `lead` = the line starts with white space. *)
IsOpt(w) == w.k \in {"p", "popt", "strip", "stripopt", "R", "Rp", "bad"}
ValOf(w) == IF w.k = "num" THEN w.v ELSE -1        \* value of a word used as option argument

RECURSIVE Opts(_, _, _)
\* st = [pn (times -p given), rn (times -R given), strip (last value), err]
Opts(ws, i, st) ==
  IF i > Len(ws) \/ st.err THEN st
  ELSE LET w == ws[i] IN
       CASE w.k \in {"p", "strip"} -> Opts(ws, i + 1, [st EXCEPT !.pn = @ + 1, !.strip = w.v])
         [] w.k \in {"popt", "stripopt"} ->
              IF i = Len(ws) THEN [st EXCEPT !.err = TRUE]                  \* argument missing
              ELSE Opts(ws, i + 2, [st EXCEPT !.pn = @ + 1, !.strip = ValOf(ws[i + 1])])
         [] w.k = "R"   -> Opts(ws, i + 1, [st EXCEPT !.rn = @ + 1])
         [] w.k = "Rp"  -> Opts(ws, i + 1, [st EXCEPT !.rn = @ + 1, !.pn = @ + 1, !.strip = w.v])
         [] w.k = "bad" -> [st EXCEPT !.err = TRUE]
         [] OTHER       -> Opts(ws, i + 1, st)                              \* free argument: ignored

\* [kind |-> "ignored"] | [kind |-> "error"] | [kind |-> "patch", first (the word naming the patch), strip, reverse]
ParseLine(ws, lead) ==
  IF ws = <<>> THEN [kind |-> "ignored"]
  ELSE IF ws[1].k = "hash" /\ ~lead THEN [kind |-> "ignored"]
  ELSE LET st == Opts(ws, 2, [pn |-> 0, rn |-> 0, strip |-> DefaultStrip, err |-> FALSE])
       IN IF st.err \/ st.pn > 1 \/ st.rn > 1 THEN [kind |-> "error"]
          ELSE [kind |-> "patch", first |-> ws[1],
                strip |-> IF st.strip < 0 THEN DefaultStrip ELSE st.strip,
                reverse |-> st.rn = 1]

(* ---- quilt state and goal ---------------------------------------------------
   series, applied : sequences of patch names.  goal:
     [g |-> "default"] | [g |-> "all"] | [g |-> "count", n] | [g |-> "name", s] *)
Min2c(a, b) == IF a < b THEN a ELSE b
IsPrefixOf(a, s) == Len(a) <= Len(s) /\ \A i \in 1..Len(a) : a[i] = s[i]
IndexOf(s, x) == IF \E i \in 1..Len(s) : s[i] = x
                 THEN CHOOSE i \in 1..Len(s) : s[i] = x /\ \A j \in 1..Len(s) : s[j] = x => i <= j
                 ELSE 0

\* [ok |-> FALSE] (refused: exit 1, nothing touched) | [ok |-> TRUE, first, last]  (range first+1..last)
Resolve(series, applied, goal) ==
  IF ~IsPrefixOf(applied, series) THEN [ok |-> FALSE, first |-> 0, last |-> 0]
  ELSE LET first == Len(applied) IN
       IF first = Len(series) THEN [ok |-> TRUE, first |-> first, last |-> first]       \* nothing to do
       ELSE CASE goal.g = "all"     -> [ok |-> TRUE, first |-> first, last |-> Len(series)]
              [] goal.g = "default" -> [ok |-> TRUE, first |-> first, last |-> Min2c(first + 1, Len(series))]
              \* ("acount"/"aname": -a given together with a free argument; the free argument decides)
              [] goal.g \in {"count", "acount"} -> [ok |-> TRUE, first |-> first, last |-> Min2c(first + goal.n, Len(series))]
              [] goal.g \in {"name", "aname"} -> LET ix == IndexOf(series, goal.s) IN
                                       IF ix = 0 \/ ix <= first THEN [ok |-> FALSE, first |-> 0, last |-> 0]
                                       ELSE [ok |-> TRUE, first |-> first, last |-> ix]

(* ---- invocation forms --------------------------------------------------------
   The command line of one push, as far as it says WHERE and WITH HOW MANY threads:
     [cwd, d, p, threadsOpt, threadsEnv]   (d, p, threadsOpt, threadsEnv may be "none")
   Meaning: the working tree is d (relative to cwd) or cwd itself; every name of the
   series, of .pc and of the patched files is resolved against it and nothing is read
   or written relative to cwd otherwise; the patch files are in <root>/p or
   <root>/patches; --threads wins over RAPIDQUILT_THREADS, which wins over the number
   of CPUs.  Two invocations with the same meaning (and the same other options) are the
   same push: the drivers exercise them interchangeably (tools/ws.py rotates cwd / -d,
   patches / -p pd, --threads / RAPIDQUILT_THREADS over the workspaces), so every
   tool-level check also checks this equivalence. *)
Meaning(inv) == [root    |-> IF inv.d = "none" THEN inv.cwd ELSE <<inv.cwd, inv.d>>,
                 patches |-> IF inv.p = "none" THEN "patches" ELSE inv.p,
                 threads |-> IF inv.threadsOpt # "none" THEN inv.threadsOpt
                             ELSE IF inv.threadsEnv # "none" THEN inv.threadsEnv ELSE "cpus"]
SameInvocation(a, b) == Meaning(a) = Meaning(b)
=============================================================================
