------------------------------- MODULE Place -------------------------------
(* Placement of one hunk on a file.

   Ref  — the property-level relation (C02): which outcomes are allowed.
   Alg  — transcription of try_apply_hunk and of the fuzz loop in
          apply_modify (src/libpatch/patch/mod.rs).

   An outcome is [ok |-> BOOLEAN, line, fuzz, why]; why \in {"", "nomatch",
   "misordered"}.  `prevOff` is the offset of the previously applied hunk,
   `frozen` the exclusive end of the previously applied hunk's changed core
   in original coordinates (-1 when there is none). *)
EXTENDS Hunk

-----------------------------------------------------------------------------
(* Ref *)

\* expected position of a view
Expected(F, v, prevOff) ==
  CASE Anchor(v) = "Start"  -> v.os
    [] Anchor(v) = "Middle" -> v.os + prevOff
    [] Anchor(v) = "End"    -> Len(F) - Len(v.old)

Candidates(F, v) == {at \in 0..Len(F) : MatchesAt(F, v.old, at)}

\* nearest matching position, forward winning ties; -1 if none.  Anchored
\* views match only at their anchor.
Nearest(F, v, prevOff) ==
  LET E == Expected(F, v, prevOff)
      C == Candidates(F, v)
  IN IF Len(v.old) > Len(F) THEN -1
     ELSE IF Anchor(v) # "Middle" THEN (IF E \in C THEN E ELSE -1)
     ELSE IF C = {} THEN -1
     ELSE CHOOSE at \in C : \A o \in C : \/ Abs(at - E) < Abs(o - E)
                                        \/ (Abs(at - E) = Abs(o - E) /\ at >= o)

(* The ordering rule: a hunk may not touch anything at or before the lines
   the previous hunk changed: its changed core starts after `frozen`, and its
   whole matched region (context included) does not reach into the previous
   hunk's changed core — context is matched against the original file and the
   changed lines are no longer what the original file says. *)
Ordered(at, v, frozen) == at + v.pre > frozen /\ at >= frozen

Levels(h, limit) == 0..Min2(limit, MaxUsable(h))

Admits(F, h, dir, g, prevOff, frozen) ==
  LET v == View(h, dir, g)
      n == Nearest(F, v, prevOff)
  IN n >= 0 /\ Ordered(n, v, frozen)

\* The allowed outcome is unique: lowest admitting level, nearest position.
PlaceRef(F, h, dir, limit, prevOff, frozen) ==
  LET adm == {g \in Levels(h, limit) : Admits(F, h, dir, g, prevOff, frozen)}
  IN IF adm = {} THEN [ok |-> FALSE, line |-> -1, fuzz |-> 0]
     ELSE LET g == CHOOSE g \in adm : \A k \in adm : g <= k
          IN [ok |-> TRUE, line |-> Nearest(F, View(h, dir, g), prevOff), fuzz |-> g]

(* The property as a relation on an observed report rep = [ok, line, fuzz]
   (used to judge reports recorded from the implementation).  C02 is silent
   about the ordering rule, so the relation is as wide as its text allows: an
   applied hunk must at least keep its changed core behind the previous one
   (anything else contradicts C03), while a lower level or a reported failure
   is only objectionable if a position exists that is admissible even under
   the strict rule `Ordered`. *)
OrderedWeak(at, v, frozen) == at + v.pre > frozen

AllowedOutcome(F, h, dir, limit, prevOff, frozen, rep) ==
  IF rep.ok
  THEN /\ rep.fuzz \in Levels(h, limit)
       /\ LET v == View(h, dir, rep.fuzz) IN
          /\ MatchesAt(F, v.old, rep.line)                         \* old side is there
          /\ rep.line = Nearest(F, v, prevOff)                     \* nearest, forward on ties, anchored
          /\ OrderedWeak(rep.line, v, frozen)
       /\ \A g \in Levels(h, limit) : g < rep.fuzz => ~Admits(F, h, dir, g, prevOff, frozen)
  ELSE \A g \in Levels(h, limit) : ~Admits(F, h, dir, g, prevOff, frozen)

-----------------------------------------------------------------------------
(* Alg: try_apply_hunk in Normal mode *)

\* forward_indexes.interleave(backward_indexes): E+1, E-1, E+2, E-2, ... with
\* each side continuing alone once the other is exhausted.  d is the distance.
RECURSIVE Scan(_, _, _, _)
Scan(F, needle, E, d) ==
  LET hi == Len(F) - Len(needle)              \* last forward index
      fwdLeft == E + d <= hi
      bwdLeft == E - d >= 0
  IN IF ~fwdLeft /\ ~bwdLeft THEN -1
     ELSE IF fwdLeft /\ MatchesAt(F, needle, E + d) THEN E + d
     ELSE IF bwdLeft /\ MatchesAt(F, needle, E - d) THEN E - d
     ELSE Scan(F, needle, E, d + 1)

TryApplyHunk(F, v, prevOff, frozen) ==
  LET t0 == Expected(F, v, prevOff) IN
  IF Len(v.old) > Len(F) THEN [ok |-> FALSE, line |-> -1, why |-> "nomatch"]
  ELSE LET t == IF MatchesAt(F, v.old, t0) THEN t0
                ELSE IF Anchor(v) # "Middle" THEN -1
                ELSE Scan(F, v.old, t0, 1)
       IN IF t < 0 THEN [ok |-> FALSE, line |-> -1, why |-> "nomatch"]
          ELSE IF ~Ordered(t, v, frozen) THEN [ok |-> FALSE, line |-> -1, why |-> "misordered"]
          ELSE [ok |-> TRUE, line |-> t, why |-> ""]

\* the fuzz loop of apply_modify: levels ascending, first success wins
RECURSIVE FuzzLoop(_, _, _, _, _, _, _)
FuzzLoop(F, h, dir, limit, prevOff, frozen, g) ==
  IF g > Min2(limit, MaxUsable(h)) THEN [ok |-> FALSE, line |-> -1, fuzz |-> 0]
  ELSE LET r == TryApplyHunk(F, View(h, dir, g), prevOff, frozen)
       IN IF r.ok THEN [ok |-> TRUE, line |-> r.line, fuzz |-> g]
          ELSE FuzzLoop(F, h, dir, limit, prevOff, frozen, g + 1)

PlaceAlg(F, h, dir, limit, prevOff, frozen) == FuzzLoop(F, h, dir, limit, prevOff, frozen, 0)
=============================================================================
