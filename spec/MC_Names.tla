------------------------------ MODULE MC_Names ------------------------------
(* C19: every combination of an old and a new name from the universe below,
   strip level 0..2, and the header position that carries the names (---/+++
   lines, or only the diff --git line of a rename).  Verdict: refused iff a
   name that the file patch carries is, after stripping, empty, absolute or
   contains ".."; otherwise the push works on the path the names land on. *)
EXTENDS Names, Json, TLC
CONSTANTS EmitCases
VARIABLES old, new, strip, viaGit, ph

Universe == { <<"x">>, <<"a", "x">>, <<"a", "d", "x">>, <<"..", "x">>, <<"a", "..", "x">>, <<"a", "..", "..", "x">>,
              <<"a", "d", "..", "..", "..", "x">>, <<".", "x">>, <<".", "..", "x">>, <<"a", ".", "x">>, <<"a", "..">>,
              <<"/", "ABS", "x">>, <<"/", "ABS", "..", "x">>, <<"d", "..", "..", "ABS", "x">> }
Init == old = <<"x">> /\ new = <<"x">> /\ strip = 0 /\ viaGit = FALSE /\ ph = 0
Next == /\ ph = 0 /\ ph' = 1
        /\ \E o \in Universe : \E n \in Universe : \E s \in 0..2 : \E g \in BOOLEAN :
              old' = o /\ new' = n /\ strip' = s /\ viaGit' = g

So == Strip(old, strip)
Sn == Strip(new, strip)
\* a name with no component left after stripping names no file: refused like an unsafe one
Verdict == [refused |-> So = <<>> \/ Sn = <<>> \/ Unsafe(So) \/ Unsafe(Sn),
            degenerate |-> (So # <<>> /\ Lands(So) = <<>>) \/ (Sn # <<>> /\ Lands(Sn) = <<>>),   \* "." alone, the working directory itself: not decisive
            old |-> Lands(So), new |-> Lands(Sn)]
Emit == (EmitCases /\ ph = 1) => PrintT(ToJson([old |-> old, new |-> new, strip |-> strip, viaGit |-> viaGit, verdict |-> Verdict]))
=============================================================================
