#!/usr/bin/env python3
"""Regenerates MANIFEST.json from the table below (kept in one place so it is always valid)."""
import json, os, subprocess
V = os.path.dirname(os.path.dirname(os.path.abspath(__file__)))
props = [json.loads(l) for l in open(os.path.join(V, 'properties.jsonl'))]

CHECKS = {
 'C06': dict(level='model_checking', design='3/C06',
   text='Push.tla models the parallel driver (per-worker queues from the name components, Consider = read earliest/apply/fetch_min, barrier, private rollback incl. renames, all rejects before any save, save micro-operations unlink/mkdir -p/create, backups, cleaning by the main thread after the join, recording); TLC checks over 17424 scenarios (11 abstract file patches incl. two that end in an error) x ALL interleavings of 2 (thorough: 3) workers that every terminating behaviour leaves the reference Outcome. Binding: a stratified sample of scenarios is run by the real binary with 1,2,3,4,8,16 threads (free schedule) and under scripted schedules enforced by the baton hooks at every consider / file-operation point; snapshots must equal the single-threaded one and the reference, and the hook trace of every forced run must be accepted by TLC as a behaviour of Push.tla (Trace_Push).',
   note='Trusted: TLC, hooks placed at every shared-state access, scen.py. Real OS schedules are not enumerated; model interleavings are, and sampled ones are forced on the binary.',
   technique='TLA+ driver model checked by TLC over all interleavings + forced-schedule replay and trace validation of the real binary'),
 'C18': dict(level='fault_enumeration', design='3/C18',
   text='Every output operation of a run fails once: (i) the guarded hook counter fails the k-th operation for k = 1..n (unlink, mkdir, create, chmod, write, readdir, rmdir, reject create/write, backup mkdir/create/write, .pc mkdir, applied-patches open/write) in the sequential driver and, pinned by a round-robin baton script, in the parallel driver; (ii) independently strace -e inject fails the j-th call of every output system call of the sequential run (ENOSPC; thorough also EIO, EACCES). Oracle: non-zero exit, no crash, message names the file, no patch recorded; recorded hook traces must not contain an append after the fault. The Push.tla model states the same as an invariant under a FailOp action.',
   note='Trusted: hooks sit on every output path (cross-checked by the hook-free strace injector), strace fault injection.',
   technique='fault enumeration on the binary with a hook fault counter and strace injection; TLA+ FailOp action in the driver model'),
 'C15': dict(level='model_checking', design='3/C15',
   text='Stratified sample of TLC-enumerated scenarios (Outcome.tla universe incl. -R, rename, mode change, rollback after failure); every workspace gets a cp -al twin and bystander files; after the push (1-3 threads, both loaders) the twin must be identical in bytes, mode, inode and mtime, every changed file must be a fresh inode and un-named files untouched; a share of the runs is traced with strace and the open/unlink events replayed into a model of the directory (an existing working-tree name may never be opened for writing).',
   note='Trusted: TLC, snapshotter, strace decoding (unfinished/resumed lines are merged). Inode freshness is only judged against the surviving hard link.',
   technique='TLC-enumerated scenarios replayed into the binary with hard-linked twins + strace event replay into a directory model'),
 'C19': dict(level='model_checking', design='3/C19',
   text='Names.tla models path components, -pN stripping and the refusal rule; TLC enumerates every (old name, new name, strip, header position) combination with its verdict; each is run inside a sentinel directory with decoys at every escape target: nothing outside the workspace may change, unsafe names must be refused with exit 1 and nothing recorded, safe names applied; a share of the runs is traced with strace (every write-class path must resolve under the workspace).',
   note='Trusted: TLC, snapshotter, strace decoding. Absolute names with strip>0 and names stripped to nothing get the safety oracle only.',
   technique='TLA+ model of name stripping (Names.tla) enumerated exhaustively by TLC, replayed into the binary inside a sentinel directory'),
 'C10': dict(level='model_checking', design='3/C10',
   text='The reference Outcome for dry configurations (tree unchanged, nothing recorded, same exit status and failing patch as the real configuration) is computed by TLC for every enumerated scenario; real --dry-run runs (1-3 threads, all backup modes) must leave the recursive snapshot incl. inode, mtime and directory entries unchanged, exit and name the failing patch as the reference and as a real run on the same workspace do; every 12th run is traced with strace on the binary and may show no write-class system call.',
   note='Trusted: TLC, snapshotter, strace decoding.',
   technique='TLA+ reference model enumerated by TLC, replay into the binary with metadata snapshots and strace'),
 'C14': dict(level='model_checking', design='3/C14',
   text='No action or operator of the specification reads the presentation/loader options, so the reference Outcome is independent of them by construction; a stratified sample of TLC-enumerated scenarios plus special workspaces (zero-length source and patch files, empty series, nothing to do) is pushed with 9 option variants; snapshots and exit status must be pairwise identical and the baseline equal to the reference.',
   note='Trusted: TLC, snapshotter. Metamorphic comparison across option variants.',
   technique='TLA+ reference model + metamorphic replay of TLC-enumerated scenarios across option variants'),
 'C09': dict(level='model_checking', design='3/C09',
   text='Cmd.tla models goal resolution and the applied-patches prefix rule; MC_Cmd enumerates every plan of up to 3 (thorough 4) invocations over a 4-patch series with an optional failing patch, checks in the model that composing invocations equals one push to the furthest goal, and emits each plan; the real binary executes the plan as consecutive processes (mixed thread counts) and its exit statuses, tree, rejects and applied-patches are compared with the model and with a real single push.',
   note='Trusted: TLC, scen.py. Backups are excluded from the comparison as the property says.',
   technique='TLA+ model of the command layer (Cmd.tla) enumerated by TLC, sessions replayed as consecutive real processes'),
 'C16': dict(level='model_checking', design='3/C16',
   text='Cmd.tla models the series-line grammar (getopts semantics incl. -p N, --strip=N, -RpN, duplicates, unknown options, non-numeric values, comments, blank lines); every line up to 3 (thorough 4) words is enumerated by TLC with its verdict (strip, reverse / ignored / error) and run against files at three path depths holding either value; the old-if-exists-else-new rule is checked on all Outcome scenarios containing a differing-names file patch, with 1 and 3 threads.',
   note='Trusted: TLC, scen.py. Strip levels beyond the path depth are not exercised (adversarial).',
   technique='TLA+ model of the series grammar and name resolution enumerated by TLC, replayed into the binary'),
 'C17': dict(level='model_checking', design='3/C17',
   text='Cmd.Resolve defines refusal (applied-patches not a prefix incl. longer/reordered/edited/duplicated, unknown or already applied goal) and MC_Cmd enumerates every (series<=3, applied variant, goal, missing/unparseable patch position; for -a and a count also a second missing patch file and a patch that does not apply, in every order) combination; each is a real workspace run with 1 and 2 threads: exit must be 1 (never a crash), stderr non-empty and the recursive snapshot incl. inode and mtime unchanged; otherwise the push result must be the model one.',
   note='Trusted: TLC, snapshotter.',
   technique='TLA+ model of the quilt-state checks (Cmd.tla) enumerated exhaustively by TLC, replayed into the binary'),
 'C05': dict(level='model_checking', design='3/C05',
   text='TLC enumerates scenarios (starting tree x series of 1-3 patches over a universe of 17 abstract file patches x configuration) and computes the reference Outcome (Outcome.tla: tree = first k patches, k names recorded, exit 0 iff all applied); a stratified seeded sample (thorough: far larger) is materialised and pushed by the real binary with 1 and 2-4 threads and the full snapshot (paths, bytes, modes, .pc/applied-patches, exit status; crash = violation) compared with the reference.',
   note='Trusted: TLC, scen.py concretiser (cells <-> bytes bijection), tmpfs workspaces. Adversarial renames (absent source) are skipped. The algorithm-level model (Push.tla) and forced schedules are added by C06.',
   technique='TLA+ reference model (Outcome.tla) enumerated by TLC, scenarios replayed into the real binary, snapshot compared'),
 'C08': dict(level='model_checking', design='3/C08',
   text='Reference backups (per-patch pre-state of every file-patch entry incl. rename twins, window by --backup-count, modes always/onfail/never) computed by TLC from Outcome.tla for every enumerated scenario x 7 configurations; real runs (1 and 2-4 threads) are compared on the exact set, bytes and modes of .pc/** and on a pop simulation (restore newest first = reference tree before the oldest backed-up patch).',
   note='Trusted: TLC, scen.py. Zero-length backup = file did not exist or was empty (quilt conflates them).',
   technique='TLA+ reference model enumerated by TLC, replay into the binary, .pc snapshot + pop simulation compared'),
 'C13': dict(level='model_checking', design='3/C13',
   text='Reference reject set (failing patch only, files with failed hunks, directory exists) from Outcome.tla for every enumerated scenario; real runs compared on the set of *.rej paths and, with an independent reader of the reject format, on the exact failed hunks in order; failing hunks of 0-257 (thorough 1025) removed x added lines in three line styles and four context shapes are read back side by side and number by number. Failure reasons covered: no match, missing file, create over existing, delete mismatch, misordered hunks.',
   note='Where C13 is silent (directory created by an earlier patch of the same push) the reject is optional in the reference. Duplicate failing entries for one file are outside the scenario universe so far.',
   technique='TLA+ reference model enumerated by TLC, replay into the binary, reject files parsed independently'),
 'C11': dict(level='model_checking', design='3/C11',
   text='The parser is modelled at the level of syntactically meaningful lines (PatchText.tla); TLC evaluates the model on every token sequence up to the bound after several prefixes (totality of the case analysis) and emits them with its verdict; each is rendered in several byte spellings, truncated at every byte, byte-mutated, and parsed by the real parse_patch under catch_unwind with a counting allocator; numeric fields up to and beyond 2^64; samples through the binary (patch and series files). Exhaustive at token level, sampled below it.',
   note='Trusted: TLC, the token renderer, the counting allocator. Arbitrary byte strings are only sampled (truncation/mutation). Agreement of accept/reject with the model is reported as a diagnostic.',
   technique='TLA+ token-level parser model enumerated by TLC, replayed into parse_patch (panic/allocation oracle) and the CLI'),
 'C12': dict(level='model_checking', design='3/C12',
   text='Parse(Write(p)) = p on everything C12 lists and Write is a fixed point: invariant of the PatchText model for every enumerated abstract patch (TLC; modes incl. a new mode equal to the old one) and for seeded multi-file-patch compositions (Val_Text); every patch is rendered in 2-4 input dialects and run through the real parse -> write -> parse -> write; the parse result is also compared with the abstract patch (binds the parser model).',
   note='Trusted: TLC, toks.py renderer.',
   technique='TLA+ model of parser and writer (PatchText.tla) checked by TLC + replay through the real parser/writer'),
 'C01': dict(level='model_checking', design='3/C01',
   text='TLC enumerates every edit script within bounds, derives the hunks diff prints for every context width (Diff.tla) and checks on the model that they apply exactly in both directions; every (A,B,c) is rendered in 12 header dialects (two with doubled separators in the stripped part) and several byte spellings and replayed through the real parser+apply in-process (both directions, absent/empty variants), GNU diff output for the same pairs too, and a sample is pushed by the real binary.',
   note='Trusted: TLC, render.py (cross-checked by GNU diff as second producer). One known finding (context-free hunk at the top of a non-empty file).',
   technique='TLA+ model of diffs (Diff.tla) + TLC enumeration, rendered and replayed into parse_patch + TextFilePatch::apply and the CLI'),
 'C04': dict(level='model_checking', design='3/C04',
   text='Rollback o Apply = identity (content, existed/absent, permissions; no abort) is an invariant of the ApplyFile model for all enumerated multi-hunk patches (partial applications included), all file-patch kinds x states x directions and LIFO stacks (MC_Kinds); every case is replayed into the real apply/rollback with catch_unwind and compared with the pre-state.',
   note='Trusted: TLC, harness. Rename rollback is covered at tool level by C05/C08 scenarios.',
   technique='TLA+ invariant RollbackIsId checked by TLC + replay of all enumerated stacks into TextFilePatch::apply/rollback'),
 'C07': dict(level='model_checking', design='3/C07',
   text='All add() sequences up to the bound: the union/compress algorithm model refines connected components for every thread count (TLC); every sequence is fed to the real FilenameDistributor and its map compared with the components TLC computed.',
   note='Trusted: TLC, harness. Exhaustive for <=4 adds over 4 names (quick) / 5 names (thorough) plus simulated longer sequences.',
   technique='TLA+ model (Distributor.tla) checked by TLC, all sequences replayed into FilenameDistributor'),
 'C02': dict(level='model_checking', design='3/C02',
   text='TLC enumerates all files and hunks within small bounds and checks the algorithm model against the placement relation; every enumerated case is replayed into the real TextFilePatch::apply and observations are judged by TLC against the relation (Val_Hunks); seeded random larger cases are validated the same way. Exhaustive within bounds, sampled beyond.',
   note='Trusted: TLC, the Json module, the harness symbol-to-bytes mapping. Bounds in evidence coverage.parts.',
   technique='TLA+ model (Hunk/Place/ApplyFile) + TLC bounded-exhaustive enumeration, spec->impl replay and impl->spec record validation'),
 'C03': dict(level='model_checking', design='3/C03',
   text='Alg (two-phase apply_modify) = Reconstruct on all 2- and 3-hunk patches cut from files within bounds (TLC); every case replayed into the real code, divergent or random observations judged by TLC with Reconstruct computed from the real reports.',
   note='Trusted: TLC, harness. Hunks overlapping in context and hunks reaching into changed lines are included.',
   technique='TLA+ model + TLC enumeration, replay into TextFilePatch::apply, TLC validation of recorded results'),
 'C20': dict(level='model_checking', design='3/C20',
   text='Fuzz monotonicity is an invariant of the Place/ApplyFile model over all enumerated cases and limit pairs (TLC); the real code is run at every limit on every enumerated and random case and compared pairwise.',
   note='Trusted: TLC, harness. Limits 0..3.',
   technique='TLA+ invariant FuzzMonotone checked by TLC + metamorphic replay of TLC-enumerated cases at all limits'),
}
NA_REASON = 'check not built yet in this round; planned per DESIGN.md section 3'

def main():
    checks, na = [], []
    for p in props:
        pid = p['id']
        if pid in CHECKS:
            c = CHECKS[pid]
            checks.append({
                'property_id': pid,
                'quick_cmd': 'python3 tools/check.py %s --tier quick' % pid,
                'thorough_cmd': 'python3 tools/check.py %s --tier thorough' % pid,
                'evidence_file': 'evidence/%s.json' % pid,
                'replay_cmd_template': 'python3 tools/check.py %s --replay {path}' % pid,
                'engine': 'tlc+rqh',
                'level_claimed': {'category': c['level'], 'text': c['text'], 'design_ref': 'DESIGN.md ' + c['design']},
                'level_note': c['note'],
                'technique': c['technique'],
            })
        else:
            na.append({'property_id': pid, 'reason': NA_REASON})
    hooks_commits = subprocess.run(['git', '-C', '/repo', 'log', '--format=%H', '--grep=^verif hooks'], stdout=subprocess.PIPE, text=True).stdout.split()
    m = {
        'version': 1,
        'setup_cmd': 'python3 tools/setup.py',
        'hooks': {
            'guard': 'opensuse_rapidquilt_verif',
            'enable': 'RUSTFLAGS="--cfg opensuse_rapidquilt_verif --check-cfg cfg(opensuse_rapidquilt_verif)" cargo build --offline (done by tools/vlib.py build(); the harness crate carries the flag in harness/.cargo/config.toml)',
            'baseline_off_cmd': 'cd /repo && cargo test --workspace --no-fail-fast --offline',
            'source_commits': hooks_commits,
            'add_only': True,
        },
        'engines': [
            {'name': 'tlc', 'path': 'spec/', 'serves_properties': sorted(CHECKS), 'kind_free_text': 'TLA+ specification modules and MC_*/Val_*/Trace_* models checked with TLC'},
            {'name': 'rqh', 'path': 'harness/', 'serves_properties': sorted(CHECKS), 'kind_free_text': 'Rust conformance harness (path dependency on /repo, includes the apply module by #[path])'},
        ],
        'checks': checks,
        'not_applicable': na,
        'notes': 'All checks: python3 tools/check.py <id> --tier quick|thorough. Exit 0 ok, 1 with VIOLATION line, 2 tool error.',
    }
    json.dump(m, open(os.path.join(V, 'MANIFEST.json'), 'w'), indent=1)
    print('checks', len(checks), 'not_applicable', len(na))
main()
