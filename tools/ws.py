"""Workspaces for CLI-level replay: materialise, run `rapidquilt push`, snapshot."""
import os, shutil, stat, subprocess, tempfile
import vlib

ENV = {'LC_ALL': 'C', 'NO_COLOR': '1', 'PATH': os.environ.get('PATH', '/usr/bin:/bin'), 'HOME': '/root', 'RAYON_NUM_THREADS': '2'}


def mkws(tag='ws'):
    base = os.path.join(vlib.SHM, 'rqverif.ws.%d' % os.getpid())
    os.makedirs(base, exist_ok=True)
    return tempfile.mkdtemp(prefix=tag + '.', dir=base)


def rmws(path):
    shutil.rmtree(path, ignore_errors=True)


def cleanup_all():
    shutil.rmtree(os.path.join(vlib.SHM, 'rqverif.ws.%d' % os.getpid()), ignore_errors=True)


def write(ws, rel, data, mode=None):
    p = os.path.join(ws, rel)
    os.makedirs(os.path.dirname(p), exist_ok=True)
    with open(p, 'wb') as f:
        f.write(data)
    if mode is not None:
        os.chmod(p, mode)


def push(ws, args=(), env=None, timeout=60, binary=None):
    """Run `rapidquilt push <args>` with cwd = ws.  Returns (rc, stdout, stderr)."""
    e = dict(ENV)
    if env:
        e.update(env)
    try:
        p = subprocess.run([binary or vlib.BIN, 'push'] + [str(a) for a in args], cwd=ws, env=e,
                           stdout=subprocess.PIPE, stderr=subprocess.PIPE, timeout=timeout)
        return p.returncode, p.stdout.decode('utf-8', 'replace'), p.stderr.decode('utf-8', 'replace')
    except subprocess.TimeoutExpired:
        return -999, '', 'TIMEOUT'


def snapshot(ws, skip=('patches', 'series'), meta=False):
    """path -> (bytes, mode) for every file; directories as path + '/' -> (None, mode).  With meta=True
    the value also carries (inode, mtime_ns)."""
    snap = {}
    for d, dirs, files in os.walk(ws):
        rel_d = os.path.relpath(d, ws)
        if rel_d == '.':
            dirs[:] = [x for x in dirs if x not in skip]
            files = [f for f in files if f not in skip]
        else:
            st = os.lstat(d)
            snap[rel_d + '/'] = (None, stat.S_IMODE(st.st_mode)) + ((st.st_ino, st.st_mtime_ns) if meta else ())
        for f in files:
            p = os.path.join(d, f)
            rel = os.path.relpath(p, ws)
            st = os.lstat(p)
            with open(p, 'rb') as fh:
                data = fh.read()
            snap[rel] = (data, stat.S_IMODE(st.st_mode)) + ((st.st_ino, st.st_mtime_ns) if meta else ())
    return snap


def crashed(rc):
    """Exit statuses that mean the tool crashed rather than failed cleanly."""
    return rc not in (0, 1)
