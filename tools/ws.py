"""Workspaces for CLI-level replay: materialise, run `rapidquilt push`, snapshot."""
import os, shutil, stat, subprocess, tempfile
import vlib

ENV = {'LC_ALL': 'C', 'NO_COLOR': '1', 'PATH': os.environ.get('PATH', '/usr/bin:/bin'), 'HOME': '/root', 'RAYON_NUM_THREADS': '2'}


def mkws(tag='ws'):
    base = os.path.join(vlib.SHM, 'rqverif.ws.%d' % os.getpid())
    os.makedirs(base, exist_ok=True)
    return tempfile.mkdtemp(prefix=tag + '.', dir=base)


def rmws(path):
    shutil.rmtree(path, ignore_errors=True)


def cleanup_all():
    shutil.rmtree(os.path.join(vlib.SHM, 'rqverif.ws.%d' % os.getpid()), ignore_errors=True)


def alt_patches(ws):
    """Every fourth workspace keeps its patches in `pd` instead of `patches` and is pushed with `-p pd`."""
    import zlib
    return (zlib.crc32(ws.encode()) >> 8) % 4 == 0


def patches_rel(ws, rel):
    return 'pd/' + rel[len('patches/'):] if rel.startswith('patches/') and alt_patches(ws) else rel


def write(ws, rel, data, mode=None):
    p = os.path.join(ws, patches_rel(ws, rel))
    os.makedirs(os.path.dirname(p), exist_ok=True)
    with open(p, 'wb') as f:
        f.write(data)
    if mode is not None:
        os.chmod(p, mode)


def push(ws, args=(), env=None, timeout=60, binary=None, retry_ok=False, via_d=None, nofile=None):
    """Run `rapidquilt push <args>` on the workspace.  Returns (rc, stdout, stderr).
    Every fourth workspace (by its name) is addressed with `-d <ws>` from an empty directory elsewhere instead of
    cwd = ws; nothing may appear in that directory (a stray write yields rc -998, which every caller treats as a crash)."""
    import zlib
    e = dict(ENV)
    if env:
        e.update(env)
    if via_d is None:
        # (runs that record a hook trace stay in the workspace: their consumers expect paths relative to it)
        via_d = zlib.crc32(ws.encode()) % 4 == 0 and 'RAPIDQUILT_VERIF_TRACE' not in e
    cwd = ws
    args = [str(a) for a in args]
    h = zlib.crc32(ws.encode())
    # equivalent forms of the same invocation (Cmd.tla, "invocation forms"): the thread count from the environment
    # instead of --threads; the patches in another directory named with -p
    if '--threads' in args and (h >> 4) % 3 == 0 and 'RAPIDQUILT_THREADS' not in e:
        i = args.index('--threads')
        e['RAPIDQUILT_THREADS'] = args[i + 1]
        args = args[:i] + args[i + 2:]
    if os.path.isdir(os.path.join(ws, 'pd')) and not os.path.exists(os.path.join(ws, 'patches')) and '-p' not in args:
        args = args + ['-p', 'pd']
    argv = [binary or vlib.BIN, 'push'] + args
    if via_d:
        base = os.path.join(vlib.SHM, 'rqverif.ws.%d' % os.getpid())
        os.makedirs(base, exist_ok=True)
        cwd = tempfile.mkdtemp(prefix='cwd.', dir=base)
        argv += ['-d', ws]

    def limit():
        import resource
        resource.setrlimit(resource.RLIMIT_NOFILE, (nofile, nofile))

    def run(t):
        p = subprocess.run(argv, cwd=cwd, env=e, stdout=subprocess.PIPE, stderr=subprocess.PIPE, timeout=t, preexec_fn=limit if nofile else None)
        return p.returncode, p.stdout.decode('utf-8', 'replace'), p.stderr.decode('utf-8', 'replace')
    try:
        try:
            r = run(timeout)
        except subprocess.TimeoutExpired:
            # a loaded machine is not a hang: only a run that also exceeds a far longer limit counts as one.
            # (Re-running is harmless for the callers that look at a timeout: they judge the exit status only.)
            if not retry_ok:
                return -999, '', 'TIMEOUT'
            try:
                r = run(timeout * 6)
            except subprocess.TimeoutExpired:
                return -999, '', 'TIMEOUT'
        if via_d and os.listdir(cwd):
            return -998, r[1], 'wrote %s relative to the process working directory instead of the -d directory; %s' % (sorted(os.listdir(cwd))[:5], r[2][-200:])
        return r
    finally:
        if via_d:
            shutil.rmtree(cwd, ignore_errors=True)


def snapshot(ws, skip=('patches', 'pd', 'series'), meta=False):
    """path -> (bytes, mode) for every file; directories as path + '/' -> (None, mode).  With meta=True
    the value also carries (inode, mtime_ns)."""
    snap = {}
    for d, dirs, files in os.walk(ws):
        rel_d = os.path.relpath(d, ws)
        if rel_d == '.':
            dirs[:] = [x for x in dirs if x not in skip]
            files = [f for f in files if f not in skip]
        else:
            st = os.lstat(d)
            snap[rel_d + '/'] = (None, stat.S_IMODE(st.st_mode)) + ((st.st_ino, st.st_mtime_ns) if meta else ())
        for f in files + [x for x in dirs if os.path.islink(os.path.join(d, x))]:
            p = os.path.join(d, f)
            rel = os.path.relpath(p, ws)
            st = os.lstat(p)
            if stat.S_ISLNK(st.st_mode):
                # a symbolic link is itself the entry: its text, never what it points to
                data = b'-> ' + os.fsencode(os.readlink(p))
            else:
                with open(p, 'rb') as fh:
                    data = fh.read()
            snap[rel] = (data, stat.S_IMODE(st.st_mode)) + ((st.st_ino, st.st_mtime_ns) if meta else ())
    return snap


def crashed(rc):
    """Exit statuses that mean the tool crashed rather than failed cleanly."""
    return rc not in (0, 1)


# ---------------------------------------------------------------------------------------------
# strace recorder for the unmodified binary (no hooks involved)
import re as _re

_WRITE_CALLS = ('unlink', 'unlinkat', 'mkdir', 'mkdirat', 'rmdir', 'rename', 'renameat', 'renameat2', 'chmod', 'fchmod', 'fchmodat',
                'utimensat', 'utime', 'utimes', 'truncate', 'ftruncate', 'link', 'linkat', 'symlink', 'symlinkat', 'mknod', 'mknodat',
                'chown', 'fchown', 'lchown', 'fchownat', 'setxattr', 'fsetxattr')
_LINE = _re.compile(r'^(\d+)\s+(\w+)\((.*)\)\s+=\s+(-?\d+|\?)(.*)$')


def strace_push(ws_dir, args, env=None, timeout=120, inject=None, binary=None):
    """Run the binary under strace -f -y.  Returns (rc, stderr, events); an event is a dict
    {call, path, fd_path, flags, ret, err, write (bool: a write-class operation)}.  Paths are as the process
    gave them (relative to cwd = workspace, or absolute)."""
    fd, out = tempfile.mkstemp(prefix='rqverif.strace.', dir=vlib.SHM)
    os.close(fd)
    cmd = ['strace', '-f', '-y', '-qq', '-o', out, '-e',
           'trace=open,openat,creat,write,pwrite64,writev,' + ','.join(_WRITE_CALLS)]
    if inject:
        cmd += ['-e', 'inject=' + inject]
    e = dict(ENV)
    if env:
        e.update(env)
    args = [str(a) for a in args]
    if os.path.isdir(os.path.join(ws_dir, 'pd')) and not os.path.exists(os.path.join(ws_dir, 'patches')) and '-p' not in args:
        args = args + ['-p', 'pd']
    try:
        p = subprocess.run(cmd + [binary or vlib.BIN, 'push'] + args, cwd=ws_dir, env=e,
                           stdout=subprocess.PIPE, stderr=subprocess.PIPE, timeout=timeout)
        rc, se = p.returncode, p.stderr.decode('utf-8', 'replace')
    except subprocess.TimeoutExpired:
        rc, se = -999, 'TIMEOUT'
    events = []
    try:
        with open(out, errors='replace') as f:
            pending = {}
            for line in f:
                line = line.rstrip('\n')
                # syscalls of concurrent threads are split into "<unfinished ...>" / "<... resumed>" halves
                um = _re.match(r'^(\d+)\s+(\w+)\((.*) <unfinished \.\.\.>$', line)
                if um:
                    pending[um.group(1)] = (um.group(2), um.group(3))
                    continue
                rm_ = _re.match(r'^(\d+)\s+<\.\.\. (\w+) resumed>(.*)$', line)
                if rm_ and rm_.group(1) in pending:
                    call, args0 = pending.pop(rm_.group(1))
                    line = '%s %s(%s%s' % (rm_.group(1), call, args0, rm_.group(3))
                m = _LINE.match(line)
                if not m:
                    continue
                pid, call, argstr, ret, rest = m.groups()
                ev = {'pid': int(pid), 'call': call, 'args': argstr, 'ret': int(ret) if ret != '?' else None, 'err': rest.strip(), 'write': False, 'path': None}
                if call in ('open', 'openat', 'creat'):
                    pm = _re.search(r'"((?:[^"\\]|\\.)*)"', argstr)
                    ev['path'] = pm.group(1) if pm else None
                    flags = argstr
                    if call == 'creat' or _re.search(r'O_WRONLY|O_RDWR|O_CREAT|O_TRUNC|O_APPEND', flags):
                        ev['write'] = True
                        ev['trunc'] = 'O_TRUNC' in flags or call == 'creat'
                        ev['creat'] = 'O_CREAT' in flags or call == 'creat'
                elif call in ('write', 'pwrite64', 'writev'):
                    fm = _re.match(r'(\d+)<([^>]*)>', argstr)
                    if fm:
                        ev['fd'] = int(fm.group(1)); ev['path'] = fm.group(2)
                        # stdout / stderr (pipes) are not outputs of the push
                        ev['write'] = ev['fd'] > 2 and not ev['path'].startswith(('pipe:', 'socket:', 'anon_inode:', '/dev/'))
                    lm = _re.search(r',\s*(\d+)$', argstr)
                    ev['len'] = int(lm.group(1)) if lm else None
                elif call in _WRITE_CALLS:
                    pm = _re.search(r'"((?:[^"\\]|\\.)*)"', argstr)
                    fm = _re.match(r'(\d+)<([^>]*)>', argstr)
                    ev['path'] = pm.group(1) if pm else (fm.group(2) if fm else None)
                    ev['write'] = True
                events.append(ev)
    except OSError:
        pass
    try:
        os.unlink(out)
    except OSError:
        pass
    return rc, se, events


def under(ws_dir, path):
    """Is `path` (as seen by a process whose cwd is ws_dir) inside the workspace?  Returns the workspace-relative
    path or None."""
    if path is None:
        return None
    full = os.path.normpath(path if os.path.isabs(path) else os.path.join(ws_dir, path))
    root = os.path.normpath(ws_dir)
    if full == root or full.startswith(root + os.sep):
        return os.path.relpath(full, root)
    return None
