"""C19: patch file names can never make a push touch files outside the working tree."""
import json, os, random
from multiprocessing import Pool
from vlib import *
import ws, scen

CFG = """
INIT Init
NEXT Next
INVARIANT Emit
"""
HUNK = scen.hunk_text({'cell': 1, 'from': 0, 'to': 1})
DECOYS = ['x', 'l1/x', 'l1/l2/x', 'ABS/x', 'l1/ABS/x', 'l1/l2/ABS/x']
INSIDE = ['x', 'a/x', 'a/d/x', 'd/x', 'ABS/x', 'a', 'a/d']


def names_job(job):
    case, threads, traced = job[:3]
    dry = len(job) > 3 and job[3]
    sentinel = ws.mkws('c19')
    w = os.path.join(sentinel, 'l1', 'l2', 'ws')
    os.makedirs(w)
    try:
        v = case['verdict']
        for d in DECOYS:
            ws.write(sentinel, d, scen.content([0]))

        # every other case spells the components a and d with a byte that is not valid UTF-8 (str with surrogate escapes)
        nonutf = (len(case['old']) + len(case['new']) + case['strip'] + threads) % 2 == 1
        sp = (lambda c: {'a': 'a\udce9', 'd': '\udcffd'}.get(c, c)) if nonutf else (lambda c: c)

        def text(name):
            if name and name[0] == '/':
                return sentinel + '/' + '/'.join(sp(c) for c in name[1:])
            return '/'.join(sp(c) for c in name)
        old_t, new_t = text(case['old']), text(case['new'])
        absolute = case['old'][0] == '/' or case['new'][0] == '/'
        decisive = not v['degenerate'] and not (absolute and case['strip'] > 0)
        if decisive and not v['refused']:
            for n in (v['old'], v['new']):
                p = '/'.join(sp(c) for c in n)
                if not os.path.isdir(os.path.join(w, p)):
                    ws.write(w, p, scen.content([0]))
        ws.write(w, 'keep', b'keep\n')
        if case['viaGit']:
            patch = os.fsencode('diff --git %s %s\nrename from %s\nrename to %s\n' % (old_t, new_t, old_t, new_t))
        else:
            # the shape of the hunk (modification, creation, deletion) has no say in whether a name may be used
            shape = job[5] if len(job) > 5 else 'M'
            body = {'M': HUNK, 'C': scen.create_hunk([0]), 'D': scen.delete_hunk([0])}[shape]
            patch = os.fsencode('--- %s\n+++ %s\n' % (old_t, new_t)) + body
        ws.write(w, 'patches/p1.patch', patch)
        ws.write(w, 'patches/p2.patch', scen.render_fp({'kind': 'C', 'old': 'NULL', 'new': 'later', 'ren': False, 'hunks': [], 'to': [0], 'from': [], 'nmode': 'none'}))
        ws.write(w, 'series', b'p1.patch -p%d\np2.patch\n' % case['strip'])
        if len(job) > 4 and job[4]:
            # run-ahead: a patch that does not apply comes first; the thread that owns the unsafe name is made to go first.
            # Its refusal then does not count (the push stops at the failing patch) and nothing it looked at may be written.
            ws.write(w, 'patches/p0.patch', b'--- a/keep\n+++ b/keep\n@@ -1 +1 @@\n-no such line\n+x\n')
            ws.write(w, 'series', b'p0.patch\np1.patch -p%d\np2.patch\n' % case['strip'])
            trace = sentinel + '.trace'
            ws.push(w, ['-a', '-q', '--threads', 2, '--dry-run'], env={'RAPIDQUILT_VERIF_TRACE': trace})
            evs = [json.loads(l) for l in open(trace)] if os.path.exists(trace) else []
            os.path.exists(trace) and os.unlink(trace)
            keys = [e['w'] for e in evs if e['ev'] == 'consider' and e.get('idx') == 1]
            others = sorted({e['w'] for e in evs if e['ev'] == 'consider' and e.get('idx') != 1} - set(keys))
            if not keys or not others:
                return []                       # one thread owns everything: no run-ahead to force
            outside_before = {p: v_ for p, v_ in ws.snapshot(sentinel, skip=(), meta=True).items() if not p.startswith('l1/l2/ws/') and p != 'l1/l2/ws/'}
            rc, so, se = ws.push(w, ['-a', '-q', '--threads', 2], env={'RAPIDQUILT_VERIF_SCHEDULE': ','.join([keys[0]] * 30 + others * 30), 'RAPIDQUILT_VERIF_TIMEOUT_MS': '3000',
                                                                       'RAPIDQUILT_VERIF_TRACE': trace})
            os.path.exists(trace) and os.unlink(trace)
            outside_after = {p: v_ for p, v_ in ws.snapshot(sentinel, skip=(), meta=True).items() if not p.startswith('l1/l2/ws/') and p != 'l1/l2/ws/'}
            probs = []
            if ws.crashed(rc):
                probs.append(('crash', 'exit status %s: %s' % (rc, se[-200:])))
            if outside_after != outside_before:
                ch = sorted(p for p in set(outside_after) | set(outside_before) if outside_after.get(p) != outside_before.get(p))
                probs.append(('outside-changed', 'files outside the working directory changed (the thread with the unsafe name ran ahead of a failing patch): %s' % ch))
            return probs
        if dry:
            # C10 on these inputs: --dry-run writes nothing anywhere under the sentinel and predicts the real run
            import p_cmd
            args = ['-a', '-q', '--threads', threads]
            before = ws.snapshot(sentinel, skip=(), meta=True)
            probs, pre = p_cmd.dry_prelude(w, args)
            if ws.snapshot(sentinel, skip=(), meta=True) != before and not any(c == 'dry-wrote' for c, _ in probs):
                probs.append(('dry-wrote', '--dry-run changed something outside the working directory'))
            rc, so, se = ws.push(w, args)
            return probs + p_cmd.dry_compare(pre, rc, se)
        outside_before = {p: v_ for p, v_ in ws.snapshot(sentinel, skip=(), meta=True).items() if not p.startswith('l1/l2/ws/') and p != 'l1/l2/ws/'}
        flavour = job[7] if len(job) > 7 else None
        if flavour == 'after-good':
            # the unsafe name is not in the first patch: the patch before it applies, and still nothing may be left behind
            ws.write(w, 'patches/p0.patch', b'--- a/keep\n+++ b/keep\n@@ -1 +1 @@\n-keep\n+kept\n')
            ws.write(w, 'series', b'p0.patch\np1.patch -p%d\np2.patch\n' % case['strip'])
        elif flavour == 'preload':
            # an earlier patch of the push has already loaded the file the (safe) old name lands on
            if not v['old'] or '..' in v['old'] or v['old'][0] == '/' or not v['refused']:
                return []
            lp = '/'.join(sp(c) for c in v['old'])
            if not os.path.isfile(os.path.join(w, lp)):
                ws.write(w, lp, scen.content([0]))
            ws.write(w, 'patches/p0.patch', os.fsencode('diff --git a/%s b/%s\nold mode 100644\nnew mode 100755\n' % (lp, lp)))
            ws.write(w, 'series', b'p0.patch\np1.patch -p%d\np2.patch\n' % case['strip'])
        inside_before = ws.snapshot(w)
        probs = []
        if traced:
            rc, se, events = ws.strace_push(w, ['-a', '-q', '--threads', threads])
            for ev in events:
                if ev['write'] and ev['path'] and ws.under(w, ev['path']) is None and not ev['path'].startswith(('/dev/', '/proc/')):
                    probs.append(('outside-syscall', 'write-class system call on a path outside the working directory: %s(%s)' % (ev['call'], ev['args'][:150])))
                    break
        else:
            rc, so, se = ws.push(w, ['-a', '-q', '--threads', threads] + (['--dry-run'] if len(job) > 6 and job[6] else []))
        outside_after = {p: v_ for p, v_ in ws.snapshot(sentinel, skip=(), meta=True).items() if not p.startswith('l1/l2/ws/') and p != 'l1/l2/ws/'}
        inside_after = ws.snapshot(w)
        # the directory entry of ws's parent may change mtime only if ws itself is created/removed: it is not
        if outside_after != outside_before:
            ch = sorted(p for p in set(outside_after) | set(outside_before) if outside_after.get(p) != outside_before.get(p))
            probs.append(('outside-changed', 'files outside the working directory changed: %s' % ch))
        if ws.crashed(rc):
            probs.append(('crash', 'exit status %s: %s' % (rc, se[-200:])))
        elif decisive:
            if v['refused']:
                if rc != 1:
                    probs.append(('not-refused', 'a file patch naming %r / %r with -p%d is not refused: exit %d' % (old_t, new_t, case['strip'], rc)))
                changed = sorted(p for p in set(inside_after) | set(inside_before) if inside_after.get(p) != inside_before.get(p) and not p.startswith('.pc'))
                if changed:
                    probs.append(('refused-but-changed', 'refused file patch but the tree changed: %s' % changed))
                ap = inside_after.get('.pc/applied-patches')
                if ap and ap[0]:
                    probs.append(('refused-but-recorded', 'patches recorded after a refused file patch: %r' % ap[0]))
            elif not case['viaGit'] and (len(job) <= 5 or (job[5] == 'M' and not job[6])):
                target = '/'.join(sp(c) for c in v['old'])
                if rc != 0 or scen.cells_of(inside_after.get(target, (b'x',))[0]) != [1]:
                    probs.append(('safe-name-not-applied', 'names %r / %r with -p%d are harmless (target %s) but the push gave exit %d: %s'
                                  % (old_t, new_t, case['strip'], target, rc, se.strip()[-150:])))
        return probs
    finally:
        ws.rmws(sentinel)


def check(prop, tier):
    res = Result(prop, tier)
    work = scratch(prop)
    try:
        out = os.path.join(work, 'names.tlc')
        st = tlc('MC_Names', constants={'EmitCases': 'TRUE'}, cfg_body=CFG, out=out, tag='names', workers=4)
        res.add_tlc(st, 'MC_Names')
        cases = list(tlc_json_lines(out))
        os.unlink(out)
        jobs = [(c, 1 + (i % 2), (i % 9 == 0) if tier == 'quick' else (i % 3 == 0)) for i, c in enumerate(cases)]
        if tier == 'thorough':
            jobs += [(c, 3, False) for c in cases]
        jobs += [(c, 2, False, False, True) for i, c in enumerate(cases) if c['verdict']['refused'] and (tier == 'thorough' or i % 3 == 0)]
        # creation- and deletion-shaped hunks under the same names; dry runs (a refused name is refused there too)
        jobs += [(c, 1 + i % 2, False, False, False, 'CD'[i % 2], False) for i, c in enumerate(cases) if not c['viaGit'] and (tier == 'thorough' or i % 2 == 0)]
        jobs += [(c, 1 + i % 2, False, False, False, 'MCD'[i % 3], True) for i, c in enumerate(cases) if tier == 'thorough' or i % 3 == 1]
        # the unsafe name comes after a patch that applies / after a patch that has loaded the old name's file
        jobs += [(c, 1 + i % 2, False, False, False, 'M', False, ('after-good', 'preload')[(i // 2) % 2]) for i, c in enumerate(cases) if c['verdict']['refused'] and (tier == 'thorough' or i % 2 == 0)]
        jobs += [(c, 1 + i % 2, False, False, False, 'M', False, ('preload', 'after-good')[(i // 2) % 2]) for i, c in enumerate(cases) if c['verdict']['refused'] and tier == 'thorough']
        with Pool(12) as pool:
            outs = pool.map(names_job, jobs, chunksize=8)
        for job_, probs in zip(jobs, outs):
            c, t = job_[0], job_[1]
            for cat, msg in probs:
                res.violation(cat, msg + ' (threads %d)' % t, {'case': c, 'threads': t})
        res.cov['parts']['names'] = {'cases': len(cases), 'runs': len(jobs), 'expected_refusals': sum(1 for c in cases if c['verdict']['refused']),
                                     'traced_with_strace': sum(1 for j in jobs if j[2]), 'run_ahead_runs': sum(1 for j in jobs if len(j) > 4 and j[4])}
        res.cov['traces_validated_against_impl'] += len(jobs)
        res.cov['evaluations'] += len(jobs)
        res.cov['distinct_nontrivial'] += len(cases)
        res.sample(cases[len(cases) // 3])
        ws.cleanup_all()
    finally:
        shutil.rmtree(work, ignore_errors=True)
    res.cov['exhaustive'] = True
    res.cov['rule'] = ('every pair (old, new) of 14 name shapes (plain, nested, ../x, a/../x, a/../../x, ./x, ./../x, a/./x, a/.., absolute, absolute with .., d/../../ABS/x) x strip 0..2 x header position '
                       '(---/+++ or the diff --git line of a rename) (TLC, exhaustive); the workspace sits two levels inside a sentinel directory with decoy files at every escape target; the sentinel outside the '
                       'workspace must be unchanged (bytes, modes, inodes, mtimes), an unsafe name must be refused with exit 1 and nothing recorded, a safe one applied; a share of the runs is traced with strace')
    return res
