#!/usr/bin/env python3
"""Binding self-test (not a registered check): show that the conformance oracles reject corrupted observations.
 (a) a recorded hook trace of the real binary is accepted by Trace_Push; four corruptions of it are rejected;
 (b) a recorded apply result is accepted by Val_Hunks; a wrong line / wrong content is flagged."""
import sys, os, json, copy, re
sys.path.insert(0, os.path.dirname(os.path.abspath(__file__)))
from vlib import *
import ws, scen, p_par, p_tool, p_fault, p_hunks

def main():
    build()
    work = scratch('selftest')
    ok = True
    # ---- (a) trace validation
    sc = p_fault.SCENARIOS[0]
    series = [{'fps': pt['fps'], 'rev': False} for pt in sc['series']]
    # restrict to the model's path universe
    series[0]['fps'] = [fp for fp in series[0]['fps'] if fp['new'] != 'n/e'] + [{'kind': 'C', 'old': 'NULL', 'new': 'd/e', 'ren': False, 'hunks': [], 'to': [1], 'from': [], 'nmode': '755'}]
    w = ws.mkws('self')
    scen.materialise(w, sc['tree0'], series)
    trace = w + '.trace'
    keys = ['a', 'd/c', 'd/e']
    script = ','.join(keys * 30)
    cfg = {'backup': 'always', 'win': -1, 'dry': False}
    rc, so, se = ws.push(w, scen.flags(cfg, 3, ('-q',)), env={'RAPIDQUILT_VERIF_TRACE': trace, 'RAPIDQUILT_VERIF_SCHEDULE': script})
    evs = p_par.normalise([json.loads(l) for l in open(trace)])
    os.unlink(trace); ws.rmws(w)
    scn = {'tree0': sc['tree0'], 'series': series, 'cfg': cfg, 'failAt': 0, 'assign': p_par.components(series), 'seq': False}
    variants = {'original': evs}
    def idx(pred):
        return next(i for i, e in enumerate(evs) if pred(e))
    v = copy.deepcopy(evs); j = idx(lambda e: e['ev'] == 'create' and any(u['ev'] == 'unlink' and u['path'] == e['path'] for u in evs))
    i = idx(lambda e: e['ev'] == 'unlink' and e['path'] == evs[j]['path']); v[i], v[j] = v[j], v[i]; variants['swap unlink/create of one file'] = v
    v = copy.deepcopy(evs); v[idx(lambda e: e['ev'] == 'unlink')]['path'] = 'b'; variants['wrong path in unlink'] = v
    v = copy.deepcopy(evs); del v[idx(lambda e: e['ev'] == 'create')]; variants['create dropped'] = v
    v = copy.deepcopy(evs); v[idx(lambda e: e['ev'] == 'consider')]['idx'] = 1; variants['wrong patch index in consider'] = v
    v = copy.deepcopy(evs); v[idx(lambda e: e['ev'] == 'applied')]['ok'] = False; variants['wrong ok flag in applied'] = v
    tf = os.path.join(work, 'traces.ndjson')
    names = list(variants)
    with open(tf, 'w') as f:
        for k, name in enumerate(names, 1):
            f.write(json.dumps({'id': k, 'scn': scn, 'ev': variants[name]}) + '\n')
    st = tlc('Trace_Push', constants={'Paths': p_tool.PATHS_C, 'W': 4}, cfg_body=p_par.TRACE_CFG, env={'RQ_TRACES': tf}, tag='selftest-trace', workers=4)
    acc = {int(m.group(1)) for m in (re.match(r'<<"ACCEPTED", (\d+)', l) for l in open(st['out'])) if m}
    for k, name in enumerate(names, 1):
        good = (k in acc) == (name == 'original')
        ok &= good
        print('trace %-32s %s %s' % (name, 'accepted' if k in acc else 'rejected', '' if good else '  <-- UNEXPECTED'))
    # ---- (b) record validation
    recs = [
        {'id': 1, 'F': ['a', 'b', 'a', 'b'], 'hs': [{'pre': ['a'], 'del': ['b'], 'ins': ['c'], 'post': [], 'os': 2, 'ns': 2}], 'dir': 'F', 'lim': 0, 'rep': [{'ok': True, 'line': 2, 'fuzz': 0}], 'out': ['a', 'b', 'a', 'c'], 'why': 'good'},
        {'id': 2, 'F': ['a', 'b', 'a', 'b'], 'hs': [{'pre': ['a'], 'del': ['b'], 'ins': ['c'], 'post': [], 'os': 2, 'ns': 2}], 'dir': 'F', 'lim': 0, 'rep': [{'ok': True, 'line': 0, 'fuzz': 0}], 'out': ['a', 'c', 'a', 'b'], 'why': 'not the nearest / not at the end anchor'},
        {'id': 3, 'F': ['a', 'b', 'a', 'b'], 'hs': [{'pre': ['a'], 'del': ['b'], 'ins': ['c'], 'post': [], 'os': 2, 'ns': 2}], 'dir': 'F', 'lim': 0, 'rep': [{'ok': True, 'line': 2, 'fuzz': 0}], 'out': ['a', 'b', 'c', 'c'], 'why': 'context line rewritten'},
        {'id': 4, 'F': ['a', 'b', 'a', 'b'], 'hs': [{'pre': ['a'], 'del': ['b'], 'ins': ['c'], 'post': [], 'os': 2, 'ns': 2}], 'dir': 'F', 'lim': 0, 'rep': [{'ok': False, 'line': -1, 'fuzz': 0}], 'out': ['a', 'b', 'a', 'b'], 'why': 'reported failed although it matches'},
    ]
    rf = os.path.join(work, 'recs.ndjson')
    open(rf, 'w').write(''.join(json.dumps(r) + '\n' for r in recs))
    st = tlc('Val_Hunks', cfg_body=p_hunks.VAL_CFG, env={'RQ_RECORDS': rf}, tag='selftest-val', workers=2)
    want = {1: (True, True), 2: (False, True), 3: (True, False), 4: (False, True)}
    for v in tlc_json_lines(st['out']):
        good = (v['c02'], v['c03']) == want[v['id']]
        ok &= good
        print('record %d (%s): c02=%s c03=%s %s' % (v['id'], recs[v['id'] - 1]['why'], v['c02'], v['c03'], '' if good else '  <-- UNEXPECTED'))
    shutil.rmtree(work, ignore_errors=True)
    ws.cleanup_all()
    print('SELFTEST', 'OK' if ok else 'FAILED')
    return 0 if ok else 1
sys.exit(main())
