#!/usr/bin/env python3
"""Binding self-test: re-introduce each repaired defect (mutants/revert-<prop>-<commit>.diff) in a scratch worktree
and require that the property's quick check reports a VIOLATION.  Results: mutants/RESULTS.json."""
import sys, os, json, subprocess, glob, time
V = os.path.dirname(os.path.dirname(os.path.abspath(__file__)))
wt = '/tmp/wt-mut'
head = subprocess.run(['git', '-C', '/repo', 'rev-parse', 'HEAD'], stdout=subprocess.PIPE, text=True).stdout.strip()
if not os.path.isdir(wt):
    subprocess.run(['git', '-C', '/repo', 'worktree', 'add', '-q', '--detach', wt, 'HEAD'], check=True)
subprocess.run(['git', '-C', wt, 'checkout', '-q', '--', '.']); subprocess.run(['git', '-C', wt, 'checkout', '-q', '--detach', head])
res_path = os.path.join(V, 'mutants', 'RESULTS.json')
results = json.load(open(res_path)) if os.path.exists(res_path) else {}
only = sys.argv[1:]
for diff in sorted(glob.glob(os.path.join(V, 'mutants', '*.diff'))):
    name = os.path.basename(diff)[:-5]
    if only and not any(o in name for o in only):
        continue
    prop = name.split('-')[1]
    subprocess.run(['git', '-C', wt, 'checkout', '-q', '--', '.'])
    p = subprocess.run(['git', '-C', wt, 'apply', diff], stdout=subprocess.PIPE, stderr=subprocess.STDOUT, text=True)
    if p.returncode != 0:
        results[name] = {'applies': False}; continue
    t0 = time.time()
    tests = subprocess.run('cargo test --offline 2>&1 | grep -E "^test result"', shell=True, cwd=wt, stdout=subprocess.PIPE, text=True).stdout
    c = subprocess.run([sys.executable, os.path.join(V, 'tools/check.py'), prop, '--tier', 'quick'], cwd=V, env=dict(os.environ, VERIF_REPO=wt),
                       stdout=subprocess.PIPE, stderr=subprocess.STDOUT, text=True, errors="replace")
    lines = [l for l in c.stdout.splitlines() if l.startswith('VIOLATION') or l.startswith('  ')][:4]
    results[name] = {'applies': True, 'property': prop, 'tests_pass': '36 passed' in tests and '13 passed' in tests, 'check_rc': c.returncode,
                     'detected': c.returncode == 1, 'wall_s': round(time.time() - t0), 'lines': lines, 'repo_head': head[:7]}
    print(name, results[name]['detected'], results[name]['tests_pass'], flush=True)
    json.dump(results, open(res_path, 'w'), indent=1)
subprocess.run(['git', '-C', wt, 'checkout', '-q', '--', '.'])
