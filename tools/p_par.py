"""C06: parallel push equals single-threaded push under every thread schedule.

Design level: Push.tla (the driver model: W workers, atomic minimum, two-phase reject/save, clean after join)
is checked by TLC over a scenario universe x ALL interleavings: every terminating behaviour leaves the reference
Outcome.  Binding: the real binary is run (a) unforced with 2..16 threads and (b) under scripted schedules enforced
by the baton hooks, including ones where a worker runs far ahead of the eventual first failure; every run's
snapshot must equal the --threads 1 snapshot and the reference, and the hook trace of every forced run must be
accepted by TLC as a behaviour of Push.tla (Trace_Push)."""
import json, os, random, re
from multiprocessing import Pool
from vlib import *
import ws, scen, p_tool

PUSH_CFG = """
INIT MCInit
NEXT MCNext
INVARIANT SameAsRef
INVARIANT LinkedInodesImmutable
INVARIANT NoWriteBeforeApplyDone
"""
TRACE_CFG = """
INIT TInit
NEXT TNext
INVARIANT SameAsRef
INVARIANT Report
"""


def components(series):
    parent = {p: p for p in scen.PATHS}

    def find(x):
        while parent[x] != x:
            x = parent[x]
        return x
    for pt in series:
        for fp in pt['fps']:
            if fp['old'] != 'NULL' and fp['new'] != 'NULL':
                a, b = find(fp['old']), find(fp['new'])
                if a != b:
                    parent[max(a, b)] = min(a, b)
    roots = sorted({find(p) for p in scen.PATHS})
    return {p: roots.index(find(p)) + 1 for p in scen.PATHS}


def normalise(events):
    out = []
    for e in events:
        e = dict(e)
        if e['ev'] == 'rej-create':
            e['target'] = e['path'][:-4]
        if e['ev'] == 'bak-create':
            m = re.match(r'\.pc/p(\d+)\.patch/(.*)$', e['path'])
            e['patch'] = int(m.group(1)); e['file'] = m.group(2)
        e.pop('hunks', None)
        out.append(e)
    return out


def snap_cmp(a, b):
    return sorted(p for p in set(a) | set(b) if a.get(p) != b.get(p))


def par_job(job):
    """one scenario: sequential run, unforced parallel runs, forced schedules with traces"""
    sc, cfg, out, nsched, sseed = job
    rnd = random.Random(sseed)
    opts = [('-R' if pt.get('rev') else '') for pt in sc['series']]
    probs, traces = [], []

    def run(threads, env=None):
        w = ws.mkws('par')
        try:
            scen.materialise(w, sc['tree0'], sc['series'], opts)
            trace = w + '.trace'
            e = dict(env or {})
            if env is not None:
                e['RAPIDQUILT_VERIF_TRACE'] = trace
            rc, so, se = ws.push(w, scen.flags(cfg, threads, ('-q',)), env=e)
            evs = []
            if os.path.exists(trace):
                evs = [json.loads(l) for l in open(trace)]
                os.unlink(trace)
            return rc, ws.snapshot(w), se, evs
        finally:
            ws.rmws(w)
    rc1, snap1, se1, evs1 = run(1, env={})
    comp = components(sc['series'])
    scn_json = {'tree0': sc['tree0'], 'series': [{'fps': pt['fps'], 'rev': bool(pt.get('rev'))} for pt in sc['series']], 'cfg': cfg, 'failAt': 0, 'assign': comp}
    if not ws.crashed(rc1):
        # the sequential driver's trace must be a behaviour of the model too (scn.seq)
        traces.append({'scn': dict(scn_json, seq=True), 'ev': normalise(evs1), 'script': ['sequential'], 'exit': rc1, 'threads': 1, 'full_script': None})
    for cat, msg in scen.compare(snap1, sc, out, cfg, rc1, se1):
        probs.append(('sequential-' + cat, 'the single-threaded run itself differs from the reference: ' + msg))
    for threads in (2, 3, 4, 8, 16):
        rc, snap, se, _ = run(threads)
        if ws.crashed(rc):
            probs.append(('parallel-crash', 'threads %d: exit status %s: %s' % (threads, rc, se[-200:])))
        elif rc != rc1 or snap != snap1:
            probs.append(('parallel-differs', 'threads %d (free schedule): exit %d vs %d, differing paths %s' % (threads, rc, rc1, snap_cmp(snap, snap1))))
    # forced schedules
    keys_for, considers = {}, {}
    for n in (2, 3):
        rc, snap, se, evs = run(n, env={})
        keys_for[n] = sorted({e['w'] for e in evs if e['w'] not in ('', 'main')})
        considers[n] = {k: sum(1 for e in evs if e['ev'] == 'consider' and e['w'] == k) for k in keys_for[n]}
    scripts = []
    if nsched and sseed % (4 if nsched > 6 else 3) == 0:       # quick tier: every third scenario, thorough: every fourth (of ten times as many)
        # every interleaving of the apply phase at file-patch granularity: all merges of the workers' consider points
        # (a worker that stops early simply leaves its later turns unused), each followed by alternation for the save phase
        for n in (2, 3):
            keys = keys_for[n]
            if len(keys) < 2:
                continue
            total = sum(considers[n].values())
            if total > 7:
                continue
            def merges(rest):
                if not any(rest.values()):
                    yield []
                    return
                for k in sorted(rest):
                    if rest[k]:
                        r2 = dict(rest); r2[k] -= 1
                        for m in merges(r2):
                            yield [k] + m
            allm = list(merges({k: considers[n][k] + 1 for k in keys}))
            if len(allm) > (24 if nsched <= 6 else 200):
                allm = rnd.sample(allm, 24 if nsched <= 6 else 200)
            for m in allm:
                scripts.append((n, m + [keys[i % len(keys)] for i in range(40)]))
    for n, script in scripts:
        rc, snap, se, evs = run(n, env={'RAPIDQUILT_VERIF_SCHEDULE': ','.join(script), 'RAPIDQUILT_VERIF_TIMEOUT_MS': '3000'})
        if any(e['ev'] == 'sched-timeout' for e in evs):
            probs.append(('skipped', 'schedule could not be enforced'))
            continue
        if ws.crashed(rc):
            probs.append(('parallel-crash', 'forced schedule %s: exit status %s: %s' % (script[:12], rc, se[-200:])))
        elif rc != rc1 or snap != snap1:
            probs.append(('parallel-differs', 'forced apply-phase interleaving %s...: exit %d vs %d, differing paths %s' % (','.join(script[:10]), rc, rc1, snap_cmp(snap, snap1))))
        traces.append({'scn': dict(scn_json, seq=False), 'ev': normalise(evs), 'script': script[:24], 'exit': rc, 'threads': n, 'full_script': script, 'merge': True})
    if nsched:
        for k in range(nsched):
            n = 2 + (k % 2)
            keys = keys_for[n]
            if len(keys) < 2:
                continue
            # random interleaving with long runs (a worker running ahead), plus strict alternation now and then
            script = []
            if k < len(keys) and k < 3:
                # one worker runs completely ahead of all the others
                script = [keys[k]] * 40 + [x for x in keys if x != keys[k]] * 20
            elif k % 4 == 3:
                script = [keys[i % len(keys)] for i in range(60)]
            else:
                while len(script) < 60:
                    script += [rnd.choice(keys)] * rnd.choice((1, 1, 2, 3, 6, 12))
            rc, snap, se, evs = run(n, env={'RAPIDQUILT_VERIF_SCHEDULE': ','.join(script), 'RAPIDQUILT_VERIF_TIMEOUT_MS': '3000'})
            if any(e['ev'] == 'sched-timeout' for e in evs):
                probs.append(('skipped', 'schedule could not be enforced'))
                continue
            if ws.crashed(rc):
                probs.append(('parallel-crash', 'forced schedule %s: exit status %s: %s' % (script[:12], rc, se[-200:])))
            elif rc != rc1 or snap != snap1:
                probs.append(('parallel-differs', 'forced schedule %s...: exit %d vs %d, differing paths %s' % (','.join(script[:16]), rc, rc1, snap_cmp(snap, snap1))))
            # C07 at the level of the run: no file is handled by two workers (component -> one key per phase is implied by assign)
            traces.append({'scn': dict(scn_json, seq=False), 'ev': normalise(evs), 'script': script[:24], 'exit': rc, 'threads': n, 'full_script': script})
    return probs, traces


def rerun_trace(tr):
    """run the scenario of a trace again under the same script; returns the normalised events"""
    scn = tr['scn']
    w = ws.mkws('rer')
    try:
        scen.materialise(w, scn['tree0'], scn['series'], [('-R' if pt.get('rev') else '') for pt in scn['series']])
        trace = w + '.trace'
        env = {'RAPIDQUILT_VERIF_TRACE': trace}
        if tr['full_script']:
            env.update({'RAPIDQUILT_VERIF_SCHEDULE': ','.join(tr['full_script']), 'RAPIDQUILT_VERIF_TIMEOUT_MS': '3000'})
        ws.push(w, scen.flags(scn['cfg'], tr['threads'], ('-q',)), env=env)
        evs = [json.loads(l) for l in open(trace)] if os.path.exists(trace) else []
        os.path.exists(trace) and os.unlink(trace)
        return normalise(evs)
    finally:
        ws.rmws(w)


def check(prop, tier):
    res = Result(prop, tier)
    work = scratch(prop)
    rnd = random.Random(seed())
    try:
        # 1. the model, all interleavings
        for wn in ((2,) if tier == 'quick' else (2, 3)):
            st = tlc('MC_Push', constants={'Paths': p_tool.PATHS_C, 'W': wn, 'Universe': '<- U_all', 'FailUpTo': 0}, cfg_body=PUSH_CFG, tag='push-w%d' % wn, workers=12)
            res.add_tlc(st, 'MC_Push/W=%d' % wn)
        # 2. scenarios for the real binary
        out, st = p_tool.enumerate_scenarios(res, 'par-scenarios', 'TreesSmall' if tier == 'quick' else 'TreesAll', 'TRUE', 2, 'Cfgs_push', work, 'TRUE')
        lines = [l for l in open(out, errors='replace') if l.startswith('"{')]
        os.unlink(out)
        strata = {}
        for line in lines:
            m = re.search(r'\\"k\\":(\d+).{0,4000}?\\"exit\\":(\d)', line)
            strata.setdefault((min(int(m.group(1)), 2), m.group(2)) if m else '?', []).append(line)
        n = 540 if tier == 'quick' else 4000
        pick = []
        for k, ls in sorted(strata.items()):
            pick += rnd.sample(ls, min(len(ls), n // len(strata)))
        # scenarios in which a worker can run ahead of the first failure: a failing patch that is not the last one,
        # with a later patch touching another name component; they get a share of the sample of their own
        def run_ahead_relevant(sc):
            o = sc['outs'][0]['out']
            f = o['failingPatch']
            if not f or f >= len(sc['series']):
                return False
            comp = components(sc['series'])
            failing = {comp[r['path']] for r in o['rejects']} | {comp[fp['old'] if fp['old'] != 'NULL' else fp['new']] for fp in sc['series'][f - 1]['fps']}
            later = {comp[fp['old'] if fp['old'] != 'NULL' else fp['new']] for pt in sc['series'][f:] for fp in pt['fps']}
            return bool(later - failing) or len(later | failing) > 1
        extra = []
        for line in rnd.sample(lines, min(len(lines), 6000)):
            if '\\"failingPatch\\":1' in line:
                sc = json.loads(json.loads(line))
                if not sc['outs'][0]['out']['adversarial'] and run_ahead_relevant(sc):
                    extra.append(line)
            if len(extra) >= n // 3:
                break
        jobs = []
        for li, line in enumerate(pick + extra):
            sc = json.loads(json.loads(line))
            if sc['outs'][0]['out']['adversarial']:
                continue
            o = sc['outs'][li % len(sc['outs'])]
            jobs.append((sc, o['cfg'], o['out'], 6 if tier == 'quick' else 10, seed() * 1000 + li))
        # every option set: dry runs too (a parallel dry run writes as little as the single-threaded one)
        outd, std = p_tool.enumerate_scenarios(res, 'par-scenarios-dry', 'TreesSmall', 'TRUE', 2, 'Cfgs_dry', work, 'FALSE')
        dl = [l for l in open(outd, errors='replace') if l.startswith('"{') and '\\"exit\\":1' in l]
        os.unlink(outd)
        for li, line in enumerate(rnd.sample(dl, min(len(dl), 120 if tier == 'quick' else 1500))):
            sc = json.loads(json.loads(line))
            dry = [o for o in sc['outs'] if o['cfg']['dry']]
            if sc['outs'][0]['out']['adversarial'] or not dry:
                continue
            jobs.append((sc, dry[0]['cfg'], dry[0]['out'], 2 if tier == 'quick' else 4, seed() * 1000 + 500000 + li))
        with Pool(12) as pool:
            outs = pool.map(par_job, jobs, chunksize=2)
        all_traces = []
        nskip = nforced = 0
        for (sc, cfg, o, ns, ss), (probs, traces) in zip(jobs, outs):
            for cat, msg in probs:
                if cat == 'skipped':
                    nskip += 1
                    continue
                res.violation(cat, msg, {'tree0': sc['tree0'], 'series': sc['series'], 'cfg': cfg, 'reference': o})
            for tr in traces:
                tr['id'] = len(all_traces) + 1
                all_traces.append(tr)
        nforced = len(all_traces)
        # 3. every forced run's hook trace must be a behaviour of the model
        accepted = set()
        if all_traces:
            # in chunks: the search over silent steps costs about 1500 distinct states per trace, and a chunk must
            # finish well inside the TLC time limit also on a loaded machine
            CH = 3000
            for c0 in range(0, len(all_traces), CH):
                tf = os.path.join(work, 'traces.%d.ndjson' % c0)
                with open(tf, 'w') as f:
                    for tr in all_traces[c0:c0 + CH]:
                        f.write(json.dumps({'id': tr['id'], 'scn': tr['scn'], 'ev': tr['ev']}) + '\n')
                st = tlc('Trace_Push', constants={'Paths': p_tool.PATHS_C, 'W': 4}, cfg_body=TRACE_CFG, env={'RQ_TRACES': tf}, tag='trace-push', workers=8, heap='8g', timeout=2400)
                if c0 == 0:
                    res.add_tlc(st, 'Trace_Push')
                else:
                    res.cov['states'] += st['distinct']; res.cov['transitions'] += st['states']
                    for k in ('states', 'distinct', 'wall_s'):
                        res.cov['parts']['Trace_Push'][k] += st[k]
                with open(st['out'], errors='replace') as f:
                    for line in f:
                        m = re.match(r'<<"ACCEPTED", (\d+), "(\w+)">>', line)
                        if m:
                            accepted.add(int(m.group(1)))
                os.unlink(tf); os.unlink(st['out'])
            res.cov['parts']['Trace_Push']['wall_s'] = round(res.cov['parts']['Trace_Push']['wall_s'], 1)
            rejected = [tr for tr in all_traces if tr['id'] not in accepted]
            # A rejected trace is a divergence from the algorithm model, not by itself a violation of C06 (DESIGN section 1).
            # It is reported only when it is systematic: the same scenario under the same script is run twice more and
            # must be rejected again; a rejection that does not reproduce is recorded as a diagnostic with the trace kept.
            systematic = []
            if rejected:
                os.makedirs(os.path.join(BUILD, 'diag'), exist_ok=True)
                rer = []
                for tr in rejected:
                    with open(os.path.join(BUILD, 'diag', 'C06-rejected-trace-%d.json' % tr['id']), 'w') as f:
                        json.dump({'scenario': tr['scn'], 'events': tr['ev'], 'script': tr['full_script'], 'threads': tr['threads']}, f)
                    for k in range(2):
                        rer.append(rerun_trace(tr))
                tf2 = os.path.join(work, 'traces2.ndjson')
                with open(tf2, 'w') as f:
                    for i, (tr, ev) in enumerate(zip([t_ for t_ in rejected for _ in range(2)], rer), 1):
                        f.write(json.dumps({'id': i, 'scn': tr['scn'], 'ev': ev}) + '\n')
                st2 = tlc('Trace_Push', constants={'Paths': p_tool.PATHS_C, 'W': 4}, cfg_body=TRACE_CFG, env={'RQ_TRACES': tf2}, tag='trace-push-rerun', workers=4, heap='4g')
                acc2 = set()
                with open(st2['out'], errors='replace') as f:
                    for line in f:
                        m = re.match(r'<<"ACCEPTED", (\d+), "(\w+)">>', line)
                        if m:
                            acc2.add(int(m.group(1)))
                for i, tr in enumerate(rejected):
                    if (2 * i + 1) not in acc2 and (2 * i + 2) not in acc2:
                        systematic.append(tr)
                    else:
                        res.diagnostics.append('trace %d rejected once by Trace_Push but accepted on re-run (kept in build/diag)' % tr['id'])
            res.cov['parts']['Trace_Push'].update({'rejected_first_time': len(rejected), 'rejected_systematically': len(systematic)})
            for tr in systematic:
                if True:
                    res.violation('trace-rejected', 'the hook trace of a %s run is not a behaviour of the driver model Push.tla (schedule %s...)' % ('sequential' if tr['scn']['seq'] else 'forced-schedule', ','.join(tr['script'][:12])),
                                  {'scenario': tr['scn'], 'events': tr['ev'], 'script': tr['script']})
        res.cov['parts']['par-scenarios'].update({'scenarios': len(jobs), 'free_runs': len(jobs) * 6, 'forced_runs': nforced, 'of_them_exhaustive_apply_phase_interleavings': sum(1 for tr in all_traces if tr.get('merge')), 'forced_skipped': nskip,
                                                  'traces_accepted_by_model': len(accepted), 'sequential_traces': sum(1 for tr in all_traces if tr['scn']['seq'])})
        res.cov['traces_validated_against_impl'] += nforced + len(jobs) * 6
        res.cov['evaluations'] += nforced + len(jobs) * 6
        res.cov['distinct_nontrivial'] += len(jobs)
        if all_traces:
            res.sample({'forced_schedule': all_traces[0]['script'], 'events': [(e['w'], e['ev'], e.get('path', e.get('idx'))) for e in all_traces[0]['ev']][:40]})
        else:
            res.sample({'scenario': jobs[0][0]['series']})
        ws.cleanup_all()
    finally:
        shutil.rmtree(work, ignore_errors=True)
    res.cov['exhaustive'] = True
    res.cov['rule'] = ('model: 17424 scenarios (3 trees x 1-2 + 1 file patches from 11 abstract file patches, two of them ending in an error, x optional -R x 2 backup configs) x all interleavings of 2 (thorough: and 3) workers, TLC exhaustive; '
                       'binary: stratified sample of the Outcome scenarios, each run with 1, 2, 3, 4, 8, 16 threads on a free schedule, under EVERY interleaving of the apply phase at file-patch granularity (2 and 3 threads; quick tier: every third scenario) and under 6 (thorough 10) scripted schedules (each worker running completely ahead once, random runs of 1-12 turns, strict '
                       'alternation) enforced at every consider / file-operation point; each forced run is also trace-validated against the model')
    res.assumptions += ['the baton hooks sit at every shared-state access (apply_worker loop top, every file operation); strace-based checks (C10, C15, C19) cross-check the operation hooks']
    return res
