"""Tool-level properties decided by replaying TLC-enumerated scenarios (MC_Out / Outcome.tla) into the real
binary: C05 (all-or-nothing), C08 (quilt metadata), C13 (reject files); C06/C09/C10/C14/C16 build on the
same machinery (see their functions)."""
import json, os, random, re, subprocess
from multiprocessing import Pool
from vlib import *
import ws, scen

OUT_CFG = """
INIT Init
NEXT Next
INVARIANT RefSane
INVARIANT Emit
"""
PATHS_C = '{"a","b","d/c","d/e"}'
CATS = {
    'C05': ('crash', 'exit', 'tree', 'applied'),
    'C08': ('crash', 'backup-set', 'backup-content', 'backup-mode', 'applied', 'popsim'),
    'C13': ('crash', 'rej-set', 'rej-content', 'rej-parse'),
}
CFGSET = {'C05': 'Cfgs_push', 'C08': 'Cfgs_backup', 'C13': 'Cfgs_one'}
WHAT = {
    'crash': 'the push crashed', 'exit': 'exit status differs from "0 exactly when the whole range applied"',
    'tree': 'working tree is not the starting tree with exactly the first k patches applied',
    'applied': '.pc/applied-patches does not hold exactly the applied names',
    'backup-set': 'set of quilt backup files differs from the reference', 'backup-content': 'a backup file does not hold the pre-patch content',
    'backup-mode': 'a backup file does not carry the pre-patch mode', 'popsim': 'restoring the backups newest-first does not recreate the earlier tree',
    'rej-set': 'set of reject files differs from the reference', 'rej-parse': 'a reject file is not a well-formed patch for its file', 'rej-content': 'a reject file does not hold exactly the failed hunks',
}


def enumerate_scenarios(res, tag, trees, p1two, npatches, cfgs, work, with_reverse='FALSE'):
    out = os.path.join(work, tag + '.tlc')
    if trees == 'TreesAll' and p1two == 'TRUE':
        with_reverse = 'FALSE'          # 72 trees x 420 x 20 patches x 4 direction pairs does not fit; -R is covered with the small trees
    st = tlc('MC_Out', heap='10g', constants={'Paths': PATHS_C, 'Trees': '<- ' + trees, 'P1Two': p1two, 'NPatches': npatches,
                                  'Cfgs': '<- ' + cfgs, 'EmitCases': 'TRUE', 'WithReverse': with_reverse}, cfg_body=OUT_CFG, out=out, tag=tag)
    res.add_tlc(st, tag)
    return out, st


def run_one(job):
    """job = (scenario, cfg, out, threads, extra flags) -> (problems, rc, stderr)"""
    sc, cfg, out, threads, extra = job
    w = ws.mkws('sc')
    scen.set_names(cfg.get('names', 0))
    try:
        scen.materialise(w, sc['tree0'], sc['series'], [('-R' if pt.get('rev') else '') for pt in sc['series']])
        first, names_before = 0, ()
        if cfg.get('after1'):
            # an earlier invocation already applied the first patch (prior applied state)
            rc0, so0, se0 = ws.push(w, ['1', '-q', '--threads', threads, '--backup', 'never'])
            if rc0 != 0:
                return [('crash' if ws.crashed(rc0) else 'exit', 'the preparatory push of patch 1 failed: %s' % se0[-200:])], rc0, se0[-300:]
            first, names_before = 1, (scen.patch_name(1),)
        rc, so, se = ws.push(w, scen.flags(cfg, threads, extra or ('-q',)))
        snap = ws.snapshot(w)
        probs = scen.compare(snap, sc, out, cfg, rc, se, first, names_before)
        if out['backups'] and not probs:
            # C08 pop simulation: newest first; result must be the tree before the oldest backed-up patch
            oldest = min(b['patch'] for b in out['backups'])
            want = sc['prefixTrees'][oldest - 1] if 'prefixTrees' in sc else None
            got = scen.popsim(snap, out)
            if want is not None:
                wt = {scen.conc(p): scen.content(f['cells']) for p, f in want.items() if f['ex'] and f['cells']}
                gt = {p: v for p, v in got.items() if v}
                if wt != gt:
                    probs.append(('popsim', 'pop simulation gives %s, tree before patch %d was %s' % (
                        {p: scen.cells_of(v) for p, v in gt.items()}, oldest, {p: scen.cells_of(v) for p, v in wt.items()})))
        # reject files are handed back so that C13 can feed them to the real parser and writer as well
        probs += [('_rej', (p_, v_[0].hex())) for p_, v_ in snap.items() if p_.endswith('.rej') and not p_.startswith('.pc/')]
        return probs, rc, se[-300:]
    finally:
        scen.set_names(0)
        ws.rmws(w)


def fuzz_backup_job(job):
    """C08 when hunks apply with fuzz: the outer context lines of every file are changed, the series is pushed with
    --fuzz 2 --backup always, and restoring the backups newest-first must give the (changed) starting tree back."""
    sc, out, threads = job
    w = ws.mkws('fzb')
    try:
        scen.materialise(w, sc['tree0'], sc['series'], [('-R' if pt.get('rev') else '') for pt in sc['series']])
        start = {}
        for p, f in sc['tree0'].items():
            if f['ex']:
                data = open(os.path.join(w, p), 'rb').read()
                for k in range(1, len(f['cells']) + 1):
                    data = data.replace(b'ctx %d.1\n' % k, b'ctx %d.1 moved\n' % k).replace(b'ctx %d.6\n' % k, b'ctx %d.6 moved\n' % k)
                open(os.path.join(w, p), 'wb').write(data)
                start[p] = data
        rc, so, se = ws.push(w, ['-a', '-q', '--threads', threads, '--backup', 'always', '--backup-count', 'all', '--fuzz', 2])
        if ws.crashed(rc):
            return [('crash', 'exit status %s with --fuzz 2 --backup always: %s' % (rc, se.strip()[-200:]))]
        if rc != 0:
            return []
        got = scen.popsim(ws.snapshot(w), out)
        got = {p: v for p, v in got.items() if v}
        want = {p: v for p, v in start.items() if v}
        if got != want:
            return [('popsim', 'after a push with --fuzz 2, restoring the backups does not give the starting tree back: differs in %s' % sorted(p for p in set(got) | set(want) if got.get(p) != want.get(p)))]
        return []
    finally:
        ws.rmws(w)


def normhex(h):
    """a name printed by rt (hex of its bytes) as the path it denotes: `d/./s/e` is `d/s/e`"""
    import posixpath
    return None if h is None else posixpath.normpath(bytes.fromhex(h)).hex()


def check_scenarios(prop, tier):
    res = Result(prop, tier)
    work = scratch(prop)
    rnd = random.Random(seed())
    try:
        plans = [('small-trees-2patches', 'TreesSmall', 'TRUE', 2), ('small-trees-3patches', 'TreesSmall', 'FALSE', 3)]
        if tier == 'thorough':
            plans = [('all-trees-2patches', 'TreesAll', 'TRUE', 2), ('all-trees-3patches', 'TreesAll', 'FALSE', 3)]
        nsample = 6000 if tier == 'quick' else 60000
        total_runs = 0
        for tag, trees, p1two, npatches in plans:
            out, st = enumerate_scenarios(res, tag, trees, p1two, npatches, CFGSET[prop], work, 'TRUE' if npatches == 2 else 'FALSE')
            lines = []
            with open(out, errors='replace') as f:
                for line in f:
                    if line.startswith('"{'):
                        lines.append(line)
            os.unlink(out)
            # stratified sample: pushes that fail at the first patch dominate the enumeration
            strata = {}
            for line in lines:
                m = re.search(r'\\"k\\":(\d+).{0,4000}?\\"exit\\":(\d)', line)
                key = (min(int(m.group(1)), 2), m.group(2)) if m else ('?', '?')
                strata.setdefault(key, []).append(line)
            pick = []
            per = max(1, nsample // max(1, len(strata)))
            for key, ls in sorted(strata.items()):
                pick += ls if len(ls) <= per else rnd.sample(ls, per)
            rnd.shuffle(pick)
            jobs, metas = [], []
            nadv = 0
            for li, line in enumerate(pick):
                sc = json.loads(json.loads(line))
                if sc['outs'][0]['out']['adversarial']:
                    nadv += 1
                    continue
                # one configuration per scenario (rotating), both drivers
                o = sc['outs'][(li + seed()) % len(sc['outs'])]
                if prop in ('C08', 'C05') and sc.get('outsAfter1') and li % 3 == 0:
                    # prior applied state: patch 1 was pushed by an earlier invocation
                    o = sc['outsAfter1'][(li + seed()) % len(sc['outsAfter1'])]
                    o = {'cfg': dict(o['cfg'], after1=True), 'out': o['out']}
                if li % 4 == 1:
                    # concrete file names that are not valid UTF-8 / need quoting in the patch headers
                    o = {'cfg': dict(o['cfg'], names=1), 'out': o['out']}
                for threads in (1, 2 + (li % 3)):
                    jobs.append((sc, o['cfg'], o['out'], threads, None)); metas.append((li, threads))
            with Pool(12) as pool:
                outs = pool.map(run_one, jobs, chunksize=16)
            total_runs += len(jobs)
            stat = {'scenarios_enumerated': len(lines), 'scenarios_replayed': len(pick) - nadv, 'adversarial_skipped': nadv, 'runs': len(jobs),
                    'runs_with_failing_patch': sum(1 for j in jobs if j[2]['exit'] == 1), 'runs_with_backups': sum(1 for j in jobs if j[2]['backups'])}
            res.cov['parts'][tag].update(stat)
            if prop == 'C08' and npatches == 2:
                fj = []
                for li, line in enumerate(pick[:(300 if tier == 'quick' else 4000)]):
                    sc = json.loads(json.loads(line))
                    oo = [o for o in sc['outs'] if o['cfg']['backup'] == 'always' and o['cfg']['win'] < 0]
                    if sc['outs'][0]['out']['adversarial'] or not oo or oo[0]['out']['exit'] != 0:
                        continue
                    fj.append((sc, oo[0]['out'], 1 + li % 2))
                with Pool(12) as pool:
                    fo = pool.map(fuzz_backup_job, fj, chunksize=8)
                for (sc, o, threads), probs in zip(fj, fo):
                    for cat, msg in probs:
                        res.violation(cat, '%s: %s (threads %d)' % (WHAT.get(cat, cat), msg, threads), {'tree0': sc['tree0'], 'series': sc['series'], 'threads': threads, 'fuzz': 2})
                res.cov['parts'][tag].update({'pushes_with_fuzz_and_backups': len(fj)})
            if prop == 'C13':
                # every reject file must itself be a patch the real parser accepts, for that file, and a fixed point of write/parse
                import p_text
                rj = []
                for (sc, cfg, o, threads, _), (probs, rc, se) in zip(jobs, outs):
                    for cat, msg in probs:
                        if cat == '_rej':
                            rj.append({'id': len(rj), 'patch': bytes.fromhex(msg[1]), 'path': msg[0], 'sc': sc})
                if rj:
                    obs = p_text.run_rt(rj)
                    nbad = 0
                    for j in rj:
                        r = obs.get(j['id'], {'status': 'missing'})
                        want = j['path'][:-4].encode('utf-8', 'surrogateescape').hex()
                        why = None
                        if r.get('status') != 'ok' or r.get('status2') != 'ok':
                            why = 'is not accepted by the parser (%s / %s)' % (r.get('status'), r.get('status2'))
                        elif not r['p1'] or any(want not in (normhex(fp['old']), normhex(fp['new'])) for fp in r['p1']):
                            why = 'does not name the file it belongs to'
                        elif r['w1'] != r['w2'] or p_text.same_c12(r['p1'], r['p2']):
                            why = 'is not a fixed point of write/parse'
                        if why:
                            nbad += 1
                            res.violation('rej-parse', 'reject file %s %s' % (j['path'], why), {'rej': j['patch'].decode('latin-1'), 'tree0': j['sc']['tree0'], 'series': j['sc']['series']})
                    res.cov['parts'][tag].update({'reject_files_parsed': len(rj), 'reject_files_bad': nbad})
            for (sc, cfg, o, threads, _), (probs, rc, se) in zip(jobs, outs):
                for cat, msg in probs:
                    if cat in CATS[prop]:
                        res.violation(cat, '%s: %s (threads %d, backup %s/%s)' % (WHAT[cat], msg, threads, cfg['backup'], cfg['win']),
                                      {'tree0': sc['tree0'], 'series': sc['series'], 'cfg': cfg, 'threads': threads, 'reference': o,
                                       'observed': {'exit': rc, 'stderr': se, 'problems': probs}})
            sc0 = jobs[len(jobs) // 2]
            res.sample({'tree0': {p: (f['cells'] if f['ex'] else None) for p, f in sc0[0]['tree0'].items()},
                        'series': [{'reverse': pt.get('rev', False), 'fps': [(fp['kind'], fp['old'], fp['new'], 'ren' if fp['ren'] else '', fp['hunks'] or fp['to'] or fp['from']) for fp in pt['fps']]} for pt in sc0[0]['series']],
                        'cfg': sc0[1], 'reference': {k: sc0[2][k] for k in ('k', 'exit', 'rejects', 'backups')}})
        if prop == 'C13':
            rej_shapes(res, tier, rnd)
        res.cov['traces_validated_against_impl'] += total_runs
        res.cov['evaluations'] += total_runs
        res.cov['distinct_nontrivial'] += total_runs // 2
        ws.cleanup_all()
    finally:
        shutil.rmtree(work, ignore_errors=True)
    res.cov['exhaustive'] = False
    res.cov['rule'] = ('TLC enumerates every scenario = starting tree x series of up to 2-3 patches with 1-2 file patches drawn from a universe of 17 abstract file patches '
                       '(modify ok/failing/misordered, differing names, rename, rename+change, mode change, create /dev/null|both names|new dir, delete /dev/null|both names|last file in dir) '
                       'and computes the reference Outcome per configuration; a seeded sample of the scenarios (all in the thorough tier up to the stated cap) is materialised and pushed by the real binary '
                       'with 1 and 2-4 threads; non-trivial = not adversarial (rename of an absent source)')
    res.assumptions += ['scen.py concretises cells as 7-line blocks so that each abstract hunk is a real hunk applying at offset 0 / fuzz 0 exactly when the model says so',
                        'umask 022, workspaces on tmpfs']
    return res




# ---------------------------------------------------------------------------------------------
# C10: --dry-run writes nothing and predicts the real outcome
def failing_name(stderr):
    m = re.search(r'Patch (\S+) FAILED', stderr)
    return m.group(1) if m else None


def dry_one(job):
    sc, cfg, out, threads, traced = job
    w = ws.mkws('dry')
    try:
        scen.materialise(w, sc['tree0'], sc['series'])
        os.makedirs(os.path.join(w, 'emptydir'))
        # the directory of d/c and d/e is there already, empty, when no file of the tree lives in it
        os.makedirs(os.path.join(w, os.path.dirname(scen.conc('d/e'))), exist_ok=True)
        before = ws.snapshot(w, skip=(), meta=True)
        probs = []
        if traced:
            rc, se, events = ws.strace_push(w, scen.flags(cfg, threads, ('-q',)))
            for ev in events:
                if ev['write'] and (ev['path'] is None or ws.under(w, ev['path']) is not None or not os.path.isabs(ev['path'] or '/')):
                    probs.append(('dry-syscall', 'write-class system call during --dry-run: %s(%s) = %s' % (ev['call'], ev['args'][:120], ev['ret'])))
                    break
        else:
            rc, so, se = ws.push(w, scen.flags(cfg, threads, ('-q',)))
        after = ws.snapshot(w, skip=(), meta=True)
        if ws.crashed(rc):
            return [('crash', 'dry run exits with %s: %s' % (rc, se[-200:]))]
        if after != before:
            ch = sorted(p for p in set(after) | set(before) if after.get(p) != before.get(p))
            probs.append(('dry-wrote', '--dry-run changed %s' % ch))
        if rc != out['exit']:
            probs.append(('dry-exit', 'dry run exits with %d, reference %d' % (rc, out['exit'])))
        want = scen.patch_name(out['failingPatch']) if out['failingPatch'] else None
        if failing_name(se) != want:
            probs.append(('dry-failing-patch', 'dry run reports failing patch %s, reference %s' % (failing_name(se), want)))
        # the real run on the same input
        real_cfg = dict(cfg, dry=False)
        rc2, so2, se2 = ws.push(w, scen.flags(real_cfg, threads, ('-q',)))
        if rc2 != rc or failing_name(se2) != failing_name(se):
            probs.append(('dry-predicts', 'dry run says exit %d / failing %s, the real run exit %d / failing %s' % (rc, failing_name(se), rc2, failing_name(se2))))
        return probs
    finally:
        ws.rmws(w)


def obstacle_job(job):
    """C10 where the tree itself is in the way: the dry run announces what the real run then does."""
    import p_cmd
    kind, op, pos, threads = job
    w = ws.mkws('obst')
    try:
        ws.write(w, 'other', scen.content([0]))
        target = {'parent-is-file': 'conf/new.txt', 'target-is-dir': 'f', 'dangling-symlink': 'f', 'symlink-to-dir': 'f', 'parent-is-symlink-to-file': 'lnk/x'}[kind]
        if kind == 'parent-is-file':
            ws.write(w, 'conf', b'a regular file\n')
        elif kind == 'target-is-dir':
            ws.write(w, 'f/inside', b'x\n')
        elif kind == 'dangling-symlink':
            os.symlink('nowhere', os.path.join(w, 'f'))
        elif kind == 'symlink-to-dir':
            ws.write(w, 'd0/inside', b'x\n'); os.symlink('d0', os.path.join(w, 'f'))
        else:
            ws.write(w, 'plain', b'x\n'); os.symlink('plain', os.path.join(w, 'lnk'))
        tn = target.encode()
        body = {'create': b'--- /dev/null\n+++ b/' + tn + b'\n' + scen.create_hunk([1]),
                'modify': b'--- a/' + tn + b'\n+++ b/' + tn + b'\n' + scen.hunk_text({'cell': 1, 'from': 0, 'to': 1}),
                'delete': b'--- a/' + tn + b'\n+++ /dev/null\n' + scen.delete_hunk([0])}[op]
        good = lambda c: b'--- a/other\n+++ b/other\n' + scen.hunk_text({'cell': 1, 'from': c, 'to': c + 1})
        patches = [good(0), good(1)]
        patches.insert(pos, body)
        for i, pt in enumerate(patches, 1):
            ws.write(w, 'patches/p%d.patch' % i, pt)
        ws.write(w, 'series', b'p1.patch\np2.patch\np3.patch\n')
        args = ['-a', '-q', '--threads', threads]
        probs, pre = p_cmd.dry_prelude(w, args)
        rc, so, se = ws.push(w, args)
        if ws.crashed(rc):
            probs.append(('crash', 'the real run exits with %s: %s' % (rc, se.strip()[-200:])))
        return probs + p_cmd.dry_compare(pre, rc, se)
    finally:
        ws.rmws(w)


def check_c10(prop, tier):
    res = Result(prop, tier)
    work = scratch(prop)
    rnd = random.Random(seed())
    try:
        # the design: in the driver model a dry run never changes a disk variable (action property), for all interleavings
        st0 = tlc('MC_Push', constants={'Paths': PATHS_C, 'W': 2, 'Universe': '<- U_dry', 'FailUpTo': 0},
                  cfg_body='INIT MCInit\nNEXT MCNext\nINVARIANT SameAsRef\nPROPERTY DryWritesNothing\n', tag='push-dry', workers=12)
        res.add_tlc(st0, 'MC_Push/U_dry')
        out, st = enumerate_scenarios(res, 'dry-scenarios', 'TreesSmall' if tier == 'quick' else 'TreesAll', 'TRUE', 2, 'Cfgs_dry', work)
        lines = [l for l in open(out, errors='replace') if l.startswith('"{')]
        os.unlink(out)
        pick = rnd.sample(lines, min(len(lines), 2500 if tier == 'quick' else 30000))
        jobs = []
        for li, line in enumerate(pick):
            sc = json.loads(json.loads(line))
            if sc['outs'][0]['out']['adversarial']:
                continue
            dry = [o for o in sc['outs'] if o['cfg']['dry']]
            o = dry[li % len(dry)]
            jobs.append((sc, o['cfg'], o['out'], 1 + li % 3, li % 12 == 0))
        with Pool(12) as pool:
            outs = pool.map(dry_one, jobs, chunksize=8)
        for (sc, cfg, o, threads, traced), probs in zip(jobs, outs):
            for cat, msg in probs:
                res.violation(cat, msg + ' (threads %d, backup %s)' % (threads, cfg['backup']),
                              {'tree0': sc['tree0'], 'series': sc['series'], 'cfg': cfg, 'threads': threads, 'reference': o})
        # inputs of other kinds: inconsistent quilt state, goals, missing / unparseable patch files at any position (the C17
        # universe of MC_Cmd), also after a patch that does not apply; file names that leave the tree (the C19 universe of
        # MC_Names).  Whatever the real run does with them, the dry run writes nothing and announces the same exit status and failing patch.
        import p_cmd, p_names
        cases = p_cmd.enum(res, 'states', work)
        sjobs = []
        for ci, c in enumerate(cases):
            bpos = c['st']['broken']['pos']
            sjobs.append((c, 1 + ci % 3, True, 0))
            if bpos >= 2:
                sjobs.append((c, 1 + (ci + 1) % 3, True, bpos - 1))
                if tier == 'thorough':
                    sjobs.append((c, 1 + (ci + 2) % 3, True, bpos - 1))
            elif bpos == 0 and c['st']['n'] >= 2 and ci % 3 == 0:
                sjobs.append((c, 1 + (ci + 1) % 3, True, 1 + ci % c['st']['n']))
        if tier == 'quick':
            sjobs = rnd.sample(sjobs, min(len(sjobs), 2500))
        with Pool(12) as pool:
            souts = pool.map(p_cmd.state_job, sjobs, chunksize=16)
        for (c, t, _, fpos), probs in zip(sjobs, souts):
            for cat, msg in probs:
                res.violation(cat, msg + ' (threads %d)' % t, {'state': c['st'], 'failing_patch_position': fpos, 'threads': t})
        out = os.path.join(work, 'names.tlc')
        stn = tlc('MC_Names', constants={'EmitCases': 'TRUE'}, cfg_body=p_names.CFG, out=out, tag='names-dry', workers=4)
        res.add_tlc(stn, 'MC_Names')
        ncases = list(tlc_json_lines(out))
        os.unlink(out)
        njobs = [(c, 1 + i % 3, False, True) for i, c in enumerate(ncases) if tier == 'thorough' or i % 2 == seed() % 2]
        with Pool(12) as pool:
            nouts = pool.map(p_names.names_job, njobs, chunksize=8)
        for (c, t, _, _), probs in zip(njobs, nouts):
            for cat, msg in probs:
                res.violation(cat, msg + ' (threads %d)' % t, {'names_case': c, 'threads': t})
        # the tree is in the way: a parent that is a regular file, a target that is a directory or a symbolic link
        ojobs = [(k, op, pos, t) for k in ('parent-is-file', 'target-is-dir', 'dangling-symlink', 'symlink-to-dir', 'parent-is-symlink-to-file')
                 for op in ('create', 'modify', 'delete') for pos in (0, 1, 2) for t in (1, 2)]
        with Pool(12) as pool:
            oouts = pool.map(obstacle_job, ojobs, chunksize=4)
        for (k, op, pos, t), probs in zip(ojobs, oouts):
            for cat, msg in probs:
                res.violation(cat, msg + ' (%s, %s, patch %d of 3, threads %d)' % (k, op, pos + 1, t), {'obstacle': k, 'operation': op, 'position': pos + 1, 'threads': t})
        res.cov['parts']['obstacles'] = {'runs': len(ojobs)}
        res.cov['traces_validated_against_impl'] += len(ojobs)
        res.cov['parts']['other-inputs'] = {'quilt_states_and_broken_patches': len(sjobs), 'with_failing_patch_before_broken': sum(1 for j in sjobs if j[3]),
                                            'file_name_cases': len(njobs)}
        res.cov['traces_validated_against_impl'] += len(sjobs) + len(njobs)
        res.cov['evaluations'] += len(sjobs) + len(njobs)
        res.cov['parts']['dry-scenarios'].update({'runs': len(jobs), 'traced_with_strace': sum(1 for j in jobs if j[4]),
                                                  'failing_series': sum(1 for j in jobs if j[2]['exit'] == 1)})
        res.cov['traces_validated_against_impl'] += len(jobs)
        res.cov['evaluations'] += len(jobs)
        res.cov['distinct_nontrivial'] += len(jobs)
        res.sample({'tree0': jobs[0][0]['tree0'], 'series': jobs[0][0]['series'], 'cfg': jobs[0][1], 'reference_exit': jobs[0][2]['exit']})
        ws.cleanup_all()
    finally:
        shutil.rmtree(work, ignore_errors=True)
    res.cov['rule'] = ('TLC-enumerated scenarios (as C05) with dry-run configurations; each run with 1-3 threads: recursive snapshot incl. inode, mtime and directory entries before = after, exit status and reported '
                       'failing patch equal the reference and the real run on the same workspace; every 12th run is traced with strace and must show no write-class system call')
    return res


# ---------------------------------------------------------------------------------------------
# C14: presentation / loader options never change the result
VARIANTS = [('-q',), (), ('--mmap', '-q'), ('-v',), ('-v', '-v'), ('--color', 'always'), ('--color', 'auto'), ('--color=never', '-v'), ('--stats', '-q'), ('--stats', '--mmap'), ('-A', 'multiapply', '-q'),
            ('--mmap', '-v', '-v', '--stats', '--color', 'always', '-A', 'multiapply')]


def opt_one(job):
    sc, cfg, out, threads, extra_files = job
    snaps = []
    for v in VARIANTS:
        w = ws.mkws('opt')
        try:
            scen.materialise(w, sc['tree0'], sc['series'])
            for p, d in extra_files.items():
                if p == '__nofile__':
                    continue
                if isinstance(d, tuple):        # ('symlink', target): move the file aside and link to it
                    real = os.path.join(w, d[1])
                    os.makedirs(os.path.dirname(real), exist_ok=True)
                    p = ws.patches_rel(w, p)
                    os.rename(os.path.join(w, p), real)
                    os.symlink(os.path.relpath(real, os.path.dirname(os.path.join(w, p))), os.path.join(w, p))
                else:
                    ws.write(w, p, d)
            rc, so, se = ws.push(w, scen.flags(cfg, threads, v), nofile=extra_files.get('__nofile__'))
            snaps.append((v, rc, ws.snapshot(w), se[-300:]))
        finally:
            ws.rmws(w)
    probs = []
    base = snaps[0]
    for v, rc, snap, se in snaps:
        if ws.crashed(rc):
            probs.append(('option-crash', 'with %s the push exits with %s: %s' % (' '.join(v) or '(no option)', rc, se)))
        elif rc != base[1] or snap != base[2]:
            diff = sorted(p for p in set(snap) | set(base[2]) if snap.get(p) != base[2].get(p))
            probs.append(('option-changes-result', 'with %s: exit %d (baseline -q: %d), differing paths %s' % (' '.join(v) or '(no option)', rc, base[1], diff)))
    # and the baseline is the reference result
    if not extra_files:
        for cat, msg in scen.compare(base[2], sc, out, cfg, base[1], base[3]):
            probs.append(('baseline-' + cat, msg))
    return probs


def text_specials(res, tier, work, rnd):
    """Workspaces below the cell abstraction, from the hunk-level universe (MC_Diff: all small edit scripts A -> B with
    their canonical hunks): failing and fuzzy pushes in which the failure hints (diagnostics.rs) have something to say.
      (a) one patch on a perturbed file: last lines missing (the hunk matches the tail and runs past the end), a
          context line corrupted, first line missing, empty file;
      (b) a chain: p0 (A -> B) applies; p1 has two sections for the file: B -> C with one hunk spoilt (fails, the
          others apply) and a second section that inserts a line at the top (shifts what the first applied)."""
    import p_hunks, render
    out = os.path.join(work, 'diag.tlc')
    consts = {'Sym': '{"a","b"}', 'MaxOps': 4 if tier == 'quick' else 5, 'MaxChanges': 2, 'MaxCtx': 2, 'EmitCases': 'TRUE', 'WithNoEol': 'FALSE'}
    st = tlc('MC_Diff', constants=consts, cfg_body=p_hunks.DIFF_CFG, out=out, tag='diag-universe')
    res.add_tlc(st, 'diag-universe/MC_Diff')
    cases = list(tlc_json_lines(out))
    os.unlink(out)
    fb = lambda lines: render.file_bytes(lines, 0)

    def patch_of(hs, spoil=None):
        body = b''
        for i, h in enumerate(hs):
            if i == spoil:
                h = dict(h, pre=['z'] + h['pre'][1:]) if h['pre'] else dict(h, **{'del': ['z'] + h['del'][1:]}) if h['del'] else dict(h, post=['z'] + h['post'][1:])
            body += render.hunk_text(h, 0)
        return b'--- a/f\n+++ b/f\n' + body
    modify = lambda hs: hs and not (len(hs) == 1 and not hs[0]['pre'] and not hs[0]['post'] and (not hs[0]['del'] or not hs[0]['ins']))
    single = []
    for case in cases:
        for c in (1, 2):
            hs = case['canon'][c]
            if not modify(hs):
                continue
            A = list(case['A'])
            for F in (A[:-1], A[:-2], A[1:], [], ['z'] + A[1:], A[:-1] + ['z']):
                if F != A:
                    single.append({'f': fb(F), 'patches/p1.patch': patch_of(hs), 'series': b'p1.patch\n'})
    byA = {}
    for case in cases:
        byA.setdefault(tuple(case['A']), []).append(case)
    chains = []
    for case1 in cases:
        if not modify(case1['canon'][1]):
            continue
        for case2 in byA.get(tuple(case1['B']), []):
            for c in (0, 1):
                hs = case2['canon'][c]
                if len(hs) < 2 or not modify(hs):
                    continue
                for spoil in range(len(hs)):
                    part = list(case1['B'])
                    for i in reversed(range(len(hs))):
                        if i != spoil:
                            h = hs[i]
                            at = h['os'] + len(h['pre'])
                            part[at:at + len(h['del'])] = h['ins']
                    if not part:
                        continue
                    sec2 = b'--- a/f\n+++ b/f\n@@ -1,1 +1,2 @@\n+n\n ' + fb(part[:1])
                    chains.append({'f': fb(case1['A']), 'patches/p0.patch': patch_of(case1['canon'][1]),
                                   'patches/p1.patch': patch_of(hs, spoil) + sec2, 'series': b'p0.patch\np1.patch\n'})
    na, nb = (260, 160) if tier == 'quick' else (4000, 3000)
    picked = rnd.sample(single, min(len(single), na)) + rnd.sample(chains, min(len(chains), nb))
    res.cov['parts']['diag-universe/MC_Diff'].update({'single_patch_workspaces': len(single), 'chain_workspaces': len(chains), 'pushed': len(picked)})
    return picked


def check_c14(prop, tier):
    res = Result(prop, tier)
    work = scratch(prop)
    rnd = random.Random(seed())
    try:
        out, st = enumerate_scenarios(res, 'option-scenarios', 'TreesSmall' if tier == 'quick' else 'TreesAll', 'TRUE', 2, 'Cfgs_push', work)
        lines = [l for l in open(out, errors='replace') if l.startswith('"{')]
        os.unlink(out)
        # stratify as in C05 so that successful and failing pushes are both there
        strata = {}
        for line in lines:
            m = re.search(r'\\"k\\":(\d+).{0,4000}?\\"exit\\":(\d)', line)
            strata.setdefault((min(int(m.group(1)), 2), m.group(2)) if m else '?', []).append(line)
        n = 500 if tier == 'quick' else 6000
        pick = []
        for k, ls in sorted(strata.items()):
            pick += rnd.sample(ls, min(len(ls), n // len(strata)))
        jobs = []
        for li, line in enumerate(pick):
            sc = json.loads(json.loads(line))
            if sc['outs'][0]['out']['adversarial']:
                continue
            o = sc['outs'][li % len(sc['outs'])]
            jobs.append((sc, o['cfg'], o['out'], 1 + li % 2, {}))
        # zero-length source file, zero-length patch file, empty series, nothing to do
        empty_tree = {p: {'ex': False, 'cells': [], 'mode': 'none'} for p in scen.PATHS}
        special = [
            ({'tree0': dict(empty_tree, b={'ex': True, 'cells': [], 'mode': '644'}), 'series': [{'fps': [{'kind': 'C', 'old': 'b', 'new': 'b', 'ren': False, 'hunks': [], 'to': [0], 'from': [], 'nmode': 'none'}]}]}, {}),
            ({'tree0': empty_tree, 'series': []}, {}),
            ({'tree0': dict(empty_tree, a={'ex': True, 'cells': [0], 'mode': '644'}), 'series': []}, {'patches/empty.patch': b'', 'series': b'empty.patch\n'}),
            ({'tree0': dict(empty_tree, a={'ex': True, 'cells': [0], 'mode': '644'}), 'series': []}, {'patches/empty.patch': b'', 'series': b'empty.patch\n', '.pc/applied-patches': b'empty.patch\n'}),
        ]
        # a patch file and a source file that are symbolic links; a repetitive source file with a hunk in the middle
        # (exercises the multiapply analysis' search)
        a0 = {'ex': True, 'cells': [0], 'mode': '644'}
        m_a = {'kind': 'M', 'old': 'a', 'new': 'a', 'ren': False, 'hunks': [{'cell': 1, 'from': 0, 'to': 1}], 'to': [], 'from': [], 'nmode': 'none'}
        special.append(({'tree0': dict(empty_tree, a=a0), 'series': [{'fps': [m_a]}]}, {'patches/p1.patch': ('symlink', 'elsewhere/p1.real'), 'a': ('symlink', 'elsewhere/a.real')}))
        rep = b''.join(b'line %d\n' % i for i in range(1, 15)) + b'}\n' + b''.join(b'line %d\n' % i for i in range(16, 25)) + b'}\n'
        rep_patch = b'--- a/code.c\n+++ b/code.c\n@@ -11,7 +11,7 @@\n line 11\n line 12\n line 13\n-line 14\n+line 14 changed\n }\n line 16\n line 17\n'
        special.append(({'tree0': empty_tree, 'series': []}, {'code.c': rep, 'patches/r.patch': rep_patch, 'series': b'r.patch\n'}))
        rep2 = b'x\n' * 6 + b'y\n' + b'x\n' * 6
        rep2_patch = b'--- a/r.c\n+++ b/r.c\n@@ -5,5 +5,5 @@\n x\n x\n-y\n+z\n x\n x\n'
        special.append(({'tree0': empty_tree, 'series': []}, {'r.c': rep2, 'patches/r.patch': rep2_patch, 'series': b'r.patch\n'}))
        # a hunk that applies at the stated place and would also apply further down: the multiapply analysis has a note to print
        rep3 = b'a\nb\nc\nx\na\nb\nc\ny\n'
        rep3_patch = b'--- a/r.c\n+++ b/r.c\n@@ -1,3 +1,3 @@\n a\n-b\n+B\n c\n'
        for hdr in (b'+++ b/r.c', b'+++ /dev/null'):
            special.append(({'tree0': empty_tree, 'series': []}, {'r.c': rep3, 'patches/r.patch': rep3_patch.replace(b'+++ b/r.c', hdr), 'series': b'r.patch\n'}))
        # the same with /dev/null as one of the names of a modifying patch (the analysis note has to name the file)
        special.append(({'tree0': empty_tree, 'series': []}, {'r.c': rep2, 'patches/r.patch': rep2_patch.replace(b'+++ b/r.c', b'+++ /dev/null'), 'series': b'r.patch\n'}))
        special.append(({'tree0': empty_tree, 'series': []}, {'r.c': rep2, 'patches/r.patch': rep2_patch.replace(b'--- a/r.c', b'--- /dev/null'), 'series': b'r.patch\n'}))
        # many files, few file descriptors: a loader must not keep what it has read open (one patch with 150 sections and
        # 150 patches with one section each; at most 48 open files)
        many = {'__nofile__': 48}
        sections = []
        for i in range(150):
            many['m/f%03d' % i] = scen.content([0])
            sec = b'--- a/m/f%03d\n+++ b/m/f%03d\n' % (i, i) + scen.hunk_text({'cell': 1, 'from': 0, 'to': 1})
            sections.append(sec)
            many['patches/q%03d.patch' % i] = b'--- a/m/f%03d\n+++ b/m/f%03d\n' % (i, i) + scen.hunk_text({'cell': 1, 'from': 1, 'to': 2})
        many['patches/all.patch'] = b''.join(sections)
        many['series'] = b'all.patch\n' + b''.join(b'q%03d.patch\n' % i for i in range(150))
        special.append(({'tree0': empty_tree, 'series': []}, many))
        for extra in text_specials(res, tier, work, rnd):
            special.append(({'tree0': empty_tree, 'series': []}, extra))
        cfg0 = {'backup': 'onfail', 'win': 100, 'dry': False}
        for sc, extra in special:
            for t in (1, 2):
                jobs.append((sc, cfg0, None, t, extra or {'series': b''}))
        with Pool(12) as pool:
            outs = pool.map(opt_one, jobs, chunksize=4)
        for (sc, cfg, o, threads, extra), probs in zip(jobs, outs):
            for cat, msg in probs:
                res.violation(cat.split(':')[0], 'presentation/loader options change the result: ' + msg + ' (threads %d)' % threads,
                              {'tree0': sc['tree0'], 'series': sc['series'], 'cfg': cfg, 'threads': threads, 'extra_files': {k: (v.decode('latin-1') if isinstance(v, bytes) else (list(v) if isinstance(v, tuple) else v)) for k, v in list(extra.items())[:40]}})
        res.cov['parts']['option-scenarios'].update({'scenarios': len(jobs), 'runs': len(jobs) * len(VARIANTS), 'variants': [' '.join(v) for v in VARIANTS]})
        res.cov['traces_validated_against_impl'] += len(jobs) * len(VARIANTS)
        res.cov['evaluations'] += len(jobs) * len(VARIANTS)
        res.cov['distinct_nontrivial'] += len(jobs)
        res.sample({'tree0': jobs[0][0]['tree0'], 'series': jobs[0][0]['series'], 'variants': [' '.join(v) for v in VARIANTS]})
        ws.cleanup_all()
    finally:
        shutil.rmtree(work, ignore_errors=True)
    res.cov['rule'] = ('stratified sample of TLC-enumerated scenarios plus special workspaces (zero-length source, zero-length patch file, empty series, nothing to do), each pushed with 9 option variants '
                       '(-q baseline, none, --mmap, -v, -vv, --color always, --stats, -A multiapply, all together); snapshots and exit status must be pairwise identical and the baseline equal to the reference Outcome')
    return res


# ---------------------------------------------------------------------------------------------
# C13: shapes of failing hunks below the cell abstraction (the writer re-derives the layout of a hunk from its two
# sides: long runs of removed / added lines, shared lines inside the change, missing final newlines)
def rej_sides(hunk):
    """Independent reader of one hunk text: (old start, old count, new start, new count, old side, new side)."""
    lines = hunk.split(b'\n')
    m = re.match(rb'@@ -(\d+)(?:,(\d+))? \+(\d+)(?:,(\d+))? @@', lines[0])
    if not m:
        return None
    old, new, last = [], [], None
    body = hunk[len(lines[0]) + 1:]
    for l in body.splitlines(True) if b'\r' not in body and b'\x0c' not in body else [x + b'\n' for x in body.split(b'\n')[:-1]]:
        c, rest = l[:1], l[1:]
        if c == b' ':
            old.append(rest); new.append(rest); last = 'b'
        elif c == b'-':
            old.append(rest); last = 'o'
        elif c == b'+':
            new.append(rest); last = 'n'
        elif c == b'\\':
            if last in ('o', 'b') and old:
                old[-1] = old[-1][:-1]
            if last in ('n', 'b') and new:
                new[-1] = new[-1][:-1]
        else:
            return None
    g = lambda x: 1 if x is None else int(x)
    return (int(m.group(1)), g(m.group(2)), int(m.group(3)), g(m.group(4)), old, new)


def rej_shape_job(job):
    hunks, threads = job
    text = b'--- a/f\n+++ b/f\n' + b''.join(hunks)
    w = ws.mkws('rejshape')
    try:
        ws.write(w, 'f', b'nothing that\nany hunk\nwould match\n')
        ws.write(w, 'patches/p1.patch', text)
        ws.write(w, 'series', b'p1.patch\n')
        rc, so, se = ws.push(w, ['-q', '-a', '--threads', str(threads)])
        snap = ws.snapshot(w)
    finally:
        ws.rmws(w)
    if ws.crashed(rc):
        return [('crash', 'exit status %s: %s' % (rc, se.strip()[-300:]))]
    probs = []
    if rc != 1:
        probs.append(('rej-set', 'a patch none of whose hunks can apply gives exit status %d' % rc))
    rej = snap.get('f.rej')
    if rej is None:
        return probs + [('rej-set', 'no f.rej for a patch none of whose hunks apply')]
    header, got = scen.split_rej(rej[0])
    if len(got) != len(hunks):
        return probs + [('rej-content', 'f.rej holds %d hunks, the patch has %d failing ones' % (len(got), len(hunks)))]
    for i, (g, h) in enumerate(zip(got, hunks), 1):
        a, b = rej_sides(g), rej_sides(h)
        if a is None:
            probs.append(('rej-content', 'hunk %d of f.rej is not a hunk: %r' % (i, g[:200])))
        elif a != b:
            what = [n for n, x, y in zip(('old start', 'old count', 'new start', 'new count', 'old side', 'new side'), a, b) if x != y]
            d = next((k for k, (x, y) in enumerate(zip(a[5] + [None], b[5] + [None])) if x != y), None) if 'new side' in what else \
                next((k for k, (x, y) in enumerate(zip(a[4] + [None], b[4] + [None])) if x != y), None)
            probs.append(('rej-content', 'hunk %d of f.rej is not the failed hunk of the patch: %s differ%s (hunk with %d old / %d new lines)'
                          % (i, ', '.join(what), '' if d is None else ' from line %d of that side' % (d + 1), len(b[4]), len(b[5]))))
    return probs


def rej_shapes(res, tier, rnd):
    sizes = [0, 1, 2, 3, 31, 32, 33, 63, 64, 65, 66, 127, 128, 129, 200, 257] if tier == 'quick' else [0, 1, 2, 3, 4, 7, 8, 9, 15, 16, 17, 31, 32, 33, 63, 64, 65, 66, 100, 127, 128, 129, 200, 255, 256, 257, 511, 512, 513, 1025]
    jobs = []
    n = 0
    for nd in sizes:
        for ni in sizes:
            if nd + ni == 0:
                continue
            for style in ('distinct', 'shared-late', 'repeats'):
                for pre, post in ((0, 0), (3, 3), (2, 0), (0, 1)):
                    n += 1
                    if nd == 0 and pre + post == 0:
                        continue        # a bare insertion has nothing that could fail to match
                    if tier == 'quick' and (n + seed()) % 4 and not (63 <= nd <= 66 and 63 <= ni <= 66):
                        continue
                    if style == 'distinct':
                        dl = [b'old %d\n' % i for i in range(nd)]; il = [b'new %d\n' % i for i in range(ni)]
                    elif style == 'shared-late':
                        # one line common to both sides, far inside the change (the writer turns it into context)
                        dl = [b'old %d\n' % i for i in range(nd)]; il = [b'new %d\n' % i for i in range(ni)]
                        if nd > 2 and ni > 2:
                            dl[nd - 2] = b'common\n'; il[ni - 2] = b'common\n'
                    else:
                        dl = [b'x\n' if i % 3 else b'y %d\n' % i for i in range(nd)]; il = [b'x\n' if i % 2 else b'y %d\n' % (i + 1) for i in range(ni)]
                    start = 5 + rnd.randrange(50)
                    pl = [b'pre %d\n' % i for i in range(pre)]; sl = [b'post %d\n' % i for i in range(post)]
                    oc, nc = pre + nd + post, pre + ni + post
                    h = (b'@@ -%d,%d +%d,%d @@\n' % (start if oc else start - 1, oc, start if nc else start - 1, nc)
                         + b''.join(b' ' + l for l in pl) + b''.join(b'-' + l for l in dl) + b''.join(b'+' + l for l in il) + b''.join(b' ' + l for l in sl))
                    if style == 'shared-late' and nd > 2 and ni > 2:
                        # spelled the way diff would: the common line is context
                        h = (b'@@ -%d,%d +%d,%d @@\n' % (start, oc, start, nc) + b''.join(b' ' + l for l in pl)
                             + b''.join(b'-' + l for l in dl[:nd - 2]) + b''.join(b'+' + l for l in il[:ni - 2]) + b' common\n'
                             + b'-' + dl[-1] + b'+' + il[-1] + b''.join(b' ' + l for l in sl))
                    jobs.append(([h], 1 + n % 3))
    # two failing hunks in one file patch: both are kept, in order
    for k in range(0, len(jobs) - 1, 7):
        jobs.append((jobs[k][0] + [re.sub(rb'^@@ -(\d+),(\d+) \+(\d+),(\d+)', lambda m: b'@@ -%d,%s +%d,%s' % (int(m.group(1)) + 2000, m.group(2), int(m.group(3)) + 2000, m.group(4)), jobs[k + 1][0][0])], 2))
    with Pool(12) as pool:
        outs = pool.map(rej_shape_job, jobs, chunksize=8)
    for (hunks, threads), probs in zip(jobs, outs):
        for cat, msg in probs:
            res.violation(cat, '%s: %s (threads %d)' % (WHAT.get(cat, cat), msg, threads), {'patch': (b'--- a/f\n+++ b/f\n' + b''.join(hunks)).decode('latin-1'), 'f': 'nothing that\nany hunk\nwould match\n', 'threads': threads})
    res.cov['parts']['reject-hunk-shapes'] = {'pushes': len(jobs), 'sizes_per_side': sizes, 'styles': ['distinct', 'shared-late', 'repeats'], 'context': ['0/0', '3/3', '2/0', '0/1']}
    res.cov['traces_validated_against_impl'] += len(jobs)
    res.cov['evaluations'] += len(jobs)
    return len(jobs)


def check(prop, tier):
    if prop == 'C10':
        return check_c10(prop, tier)
    if prop == 'C14':
        return check_c14(prop, tier)
    if prop == 'C15':
        return check_c15(prop, tier)
    return check_scenarios(prop, tier)


# ---------------------------------------------------------------------------------------------
# C15: files are replaced, never edited in place; hard-linked copies stay intact
def twin_one(job):
    sc, cfg, out, threads, loader, traced = job[:6]
    inject = job[6] if len(job) > 6 else None
    base = ws.mkws('twin')
    w, twin = os.path.join(base, 'ws'), os.path.join(base, 'twin')
    os.makedirs(w)
    try:
        scen.materialise(w, sc['tree0'], sc['series'], [('-R' if pt.get('rev') else '') for pt in sc['series']])
        ws.write(w, 'z', b'bystander\n')
        ws.write(w, 'zz/bystander', b'bystander\n', 0o600)
        if threads % 2:
            # read-only files: replacing them must not touch the mode of the (shared) inode either
            for p, f in sc['tree0'].items():
                if f['ex']:
                    os.chmod(os.path.join(w, p), 0o444 if f['mode'] == '644' else 0o555)
        if threads == 2 and not loader:
            # one patched file is a symbolic link to a file that no patch names (and that the twin shares): the push
            # replaces the link, it never writes through it
            for p, f in sorted(sc['tree0'].items()):
                if f['ex']:
                    cp = scen.conc(p)
                    real = os.path.join(w, 'zz', 'real.target')
                    os.rename(os.path.join(w, cp), real)
                    os.symlink(os.path.relpath(real, os.path.dirname(os.path.join(w, cp))), os.path.join(w, cp))
                    break
        subprocess.run(['cp', '-al', w, twin], check=True)
        named = set()
        for pt in sc['series']:
            for fp in pt['fps']:
                named |= {fp['old'], fp['new']} - {'NULL'}
        before = ws.snapshot(w, meta=True)
        twin_before = ws.snapshot(twin, skip=(), meta=True)
        probs = []
        args = scen.flags(cfg, threads, ('-q',) + (('--mmap',) if loader else ()))
        if inject:
            # the k-th removal of a file is refused by the system: whatever the push then reports, it must not fall back to
            # writing into the existing (shared) inode
            rc, se, events = ws.strace_push(w, args, inject=inject)
        elif traced:
            rc, se, events = ws.strace_push(w, args)
            # replay of the event trace into a model of the directory: which names exist
            exists = {p for p in before if not p.endswith('/')}
            for ev in events:
                rel = ws.under(w, ev['path']) if ev['path'] else None
                if rel is None or not ev['write'] or ev['ret'] is None or ev['ret'] < 0:
                    continue
                is_tree = not rel.startswith('.pc') and not rel.endswith('.rej')
                if ev['call'] in ('open', 'openat', 'creat'):
                    if is_tree and rel in exists and (ev.get('trunc') or True):
                        probs.append(('in-place', 'existing working-tree file %s opened for writing without being unlinked first: %s' % (rel, ev['args'][:100])))
                    if is_tree and rel not in named and not os.path.isdir(os.path.join(w, rel)):
                        probs.append(('unnamed-touched', 'file %s that no patch names was opened for writing' % rel))
                    exists.add(rel)
                elif ev['call'] in ('unlink', 'unlinkat'):
                    if is_tree and rel not in named:
                        probs.append(('unnamed-touched', 'file %s that no patch names was removed' % rel))
                    exists.discard(rel)
                elif ev['call'] in ('rename', 'renameat', 'renameat2', 'chmod', 'fchmodat', 'truncate', 'link', 'linkat') and is_tree and rel not in named:
                    probs.append(('unnamed-touched', '%s on %s that no patch names' % (ev['call'], rel)))
        else:
            rc, so, se = ws.push(w, args)
        if ws.crashed(rc):
            return [('crash', 'exit status %s: %s' % (rc, se[-200:]))]
        after = ws.snapshot(w, meta=True)
        twin_after = ws.snapshot(twin, skip=(), meta=True)
        if twin_after != twin_before:
            ch = sorted(p for p in set(twin_after) | set(twin_before) if twin_after.get(p) != twin_before.get(p))
            probs.append(('twin-changed', 'hard-linked copies changed (content, mode, inode or mtime): %s' % ch))
        for p, v in after.items():
            if p.endswith('/') or p.startswith('.pc') or p.endswith('.rej'):
                continue
            b = before.get(p)
            if b is None:
                continue
            changed = (v[0], v[1]) != (b[0], b[1])
            if changed and v[2] == b[2]:
                probs.append(('same-inode', '%s changed but is still the same inode' % p))
            if p not in named and (v[2] != b[2] or v[3] != b[3]):
                probs.append(('unnamed-touched', 'file %s that no patch names got a new inode or mtime' % p))
        for p in before:
            if not p.endswith('/') and p not in after and p not in named and not p.startswith('.pc'):
                probs.append(('unnamed-touched', 'file %s that no patch names disappeared' % p))
        return probs
    finally:
        ws.rmws(base)


def check_c15(prop, tier):
    res = Result(prop, tier)
    work = scratch(prop)
    rnd = random.Random(seed())
    try:
        # the design: in the driver model an inode that exists at the start is never written (create only after unlink)
        st0 = tlc('MC_Push', constants={'Paths': PATHS_C, 'W': 2, 'Universe': '<- U_all', 'FailUpTo': 0},
                  cfg_body='INIT MCInit\nNEXT MCNext\nINVARIANT LinkedInodesImmutable\n', tag='push-inodes', workers=12)
        res.add_tlc(st0, 'MC_Push/U_all')
        out, st = enumerate_scenarios(res, 'twin-scenarios', 'TreesSmall' if tier == 'quick' else 'TreesAll', 'TRUE', 2, 'Cfgs_push', work, 'TRUE')
        lines = [l for l in open(out, errors='replace') if l.startswith('"{')]
        os.unlink(out)
        strata = {}
        for line in lines:
            m = re.search(r'\\"k\\":(\d+).{0,4000}?\\"exit\\":(\d)', line)
            strata.setdefault((min(int(m.group(1)), 2), m.group(2)) if m else '?', []).append(line)
        n = 2400 if tier == 'quick' else 30000
        pick = []
        for k, ls in sorted(strata.items()):
            pick += rnd.sample(ls, min(len(ls), n // len(strata)))
        jobs = []
        for li, line in enumerate(pick):
            sc = json.loads(json.loads(line))
            if sc['outs'][0]['out']['adversarial']:
                continue
            o = sc['outs'][li % len(sc['outs'])]
            jobs.append((sc, o['cfg'], o['out'], 1 + li % 3, li % 2 == 1, li % 10 == 0))
        # a sample again with the k-th unlink refused (EACCES / EPERM, as for an immutable or sticky directory)
        nfault = 0
        for li, line in enumerate(pick[:(300 if tier == 'quick' else 4000)]):
            sc = json.loads(json.loads(line))
            o = sc['outs'][0]
            if o['out']['adversarial'] or o['out']['k'] == 0:
                continue
            for k in (1, 2):
                jobs.append((sc, o['cfg'], o['out'], 1 + li % 2, False, False, 'unlink:error=%s:when=%d' % (('EACCES', 'EPERM')[li % 2], k)))
                nfault += 1
        with Pool(12) as pool:
            outs = pool.map(twin_one, jobs, chunksize=8)
        for job, probs in zip(jobs, outs):
            sc, cfg, o, threads, loader, traced = job[:6]
            for cat, msg in probs:
                res.violation(cat, msg + ' (threads %d%s%s)' % (threads, ', --mmap' if loader else '', (', injected ' + job[6]) if len(job) > 6 else ''),
                              {'tree0': sc['tree0'], 'series': sc['series'], 'cfg': cfg, 'threads': threads, 'mmap': loader, 'inject': job[6] if len(job) > 6 else None})
        res.cov['parts']['twin-scenarios'].update({'runs': len(jobs), 'runs_with_refused_unlink': nfault, 'traced_with_strace': sum(1 for j in jobs if j[5]), 'with_mmap': sum(1 for j in jobs if j[4]),
                                                   'failing_series': sum(1 for j in jobs if j[2]['exit'] == 1)})
        res.cov['traces_validated_against_impl'] += len(jobs)
        res.cov['evaluations'] += len(jobs)
        res.cov['distinct_nontrivial'] += len(jobs)
        res.sample({'tree0': jobs[0][0]['tree0'], 'series': jobs[0][0]['series'], 'cfg': jobs[0][1]})
        ws.cleanup_all()
    finally:
        shutil.rmtree(work, ignore_errors=True)
    res.cov['rule'] = ('stratified sample of TLC-enumerated scenarios (modify, delete, rename, mode change, create over empty, rollback after failure, -R); every workspace gets a `cp -al` twin and two bystander files; '
                       'after the push (1-3 threads, both loaders) the twin must be bit-, mode-, inode- and mtime-identical, every changed file must be a fresh inode, and files no patch names keep inode and mtime; '
                       'every 10th run is traced with strace and the open/unlink events are replayed into a model of the directory: an existing working-tree name may not be opened for writing')
    return res
