"""Tool-level properties decided by replaying TLC-enumerated scenarios (MC_Out / Outcome.tla) into the real
binary: C05 (all-or-nothing), C08 (quilt metadata), C13 (reject files); C06/C09/C10/C14/C16 build on the
same machinery (see their functions)."""
import json, os, random, re
from multiprocessing import Pool
from vlib import *
import ws, scen

OUT_CFG = """
INIT Init
NEXT Next
INVARIANT RefSane
INVARIANT Emit
"""
PATHS_C = '{"a","b","d/c","d/e"}'
CATS = {
    'C05': ('crash', 'exit', 'tree', 'applied'),
    'C08': ('crash', 'backup-set', 'backup-content', 'backup-mode', 'applied', 'popsim'),
    'C13': ('crash', 'rej-set', 'rej-content'),
}
CFGSET = {'C05': 'Cfgs_push', 'C08': 'Cfgs_backup', 'C13': 'Cfgs_one'}
WHAT = {
    'crash': 'the push crashed', 'exit': 'exit status differs from "0 exactly when the whole range applied"',
    'tree': 'working tree is not the starting tree with exactly the first k patches applied',
    'applied': '.pc/applied-patches does not hold exactly the applied names',
    'backup-set': 'set of quilt backup files differs from the reference', 'backup-content': 'a backup file does not hold the pre-patch content',
    'backup-mode': 'a backup file does not carry the pre-patch mode', 'popsim': 'restoring the backups newest-first does not recreate the earlier tree',
    'rej-set': 'set of reject files differs from the reference', 'rej-content': 'a reject file does not hold exactly the failed hunks',
}


def enumerate_scenarios(res, tag, trees, p1two, npatches, cfgs, work):
    out = os.path.join(work, tag + '.tlc')
    st = tlc('MC_Out', constants={'Paths': PATHS_C, 'Trees': '<- ' + trees, 'P1Two': p1two, 'NPatches': npatches,
                                  'Cfgs': '<- ' + cfgs, 'EmitCases': 'TRUE'}, cfg_body=OUT_CFG, out=out, tag=tag)
    res.add_tlc(st, tag)
    return out, st


def run_one(job):
    """job = (scenario, cfg, out, threads, extra flags) -> (problems, rc, stderr)"""
    sc, cfg, out, threads, extra = job
    w = ws.mkws('sc')
    try:
        scen.materialise(w, sc['tree0'], sc['series'])
        rc, so, se = ws.push(w, scen.flags(cfg, threads, extra or ('-q',)))
        snap = ws.snapshot(w)
        probs = scen.compare(snap, sc, out, cfg, rc, se)
        if out['backups'] and not probs:
            # C08 pop simulation: newest first; result must be the tree before the oldest backed-up patch
            oldest = min(b['patch'] for b in out['backups'])
            want = sc['prefixTrees'][oldest - 1] if 'prefixTrees' in sc else None
            got = scen.popsim(snap, out)
            if want is not None:
                wt = {p: scen.content(f['cells']) for p, f in want.items() if f['ex'] and f['cells']}
                gt = {p: v for p, v in got.items() if v}
                if wt != gt:
                    probs.append(('popsim', 'pop simulation gives %s, tree before patch %d was %s' % (
                        {p: scen.cells_of(v) for p, v in gt.items()}, oldest, {p: scen.cells_of(v) for p, v in wt.items()})))
        return probs, rc, se[-300:]
    finally:
        ws.rmws(w)


def check_scenarios(prop, tier):
    res = Result(prop, tier)
    work = scratch(prop)
    rnd = random.Random(seed())
    try:
        plans = [('small-trees-2patches', 'TreesSmall', 'TRUE', 2), ('small-trees-3patches', 'TreesSmall', 'FALSE', 3)]
        if tier == 'thorough':
            plans = [('all-trees-2patches', 'TreesAll', 'TRUE', 2), ('all-trees-3patches', 'TreesAll', 'FALSE', 3)]
        nsample = 6000 if tier == 'quick' else 60000
        total_runs = 0
        for tag, trees, p1two, npatches in plans:
            out, st = enumerate_scenarios(res, tag, trees, p1two, npatches, CFGSET[prop], work)
            lines = []
            with open(out, errors='replace') as f:
                for line in f:
                    if line.startswith('"{'):
                        lines.append(line)
            os.unlink(out)
            # stratified sample: pushes that fail at the first patch dominate the enumeration
            strata = {}
            for line in lines:
                m = re.search(r'\\"k\\":(\d+).{0,4000}?\\"exit\\":(\d)', line)
                key = (min(int(m.group(1)), 2), m.group(2)) if m else ('?', '?')
                strata.setdefault(key, []).append(line)
            pick = []
            per = max(1, nsample // max(1, len(strata)))
            for key, ls in sorted(strata.items()):
                pick += ls if len(ls) <= per else rnd.sample(ls, per)
            rnd.shuffle(pick)
            jobs, metas = [], []
            nadv = 0
            for li, line in enumerate(pick):
                sc = json.loads(json.loads(line))
                if sc['outs'][0]['out']['adversarial']:
                    nadv += 1
                    continue
                # one configuration per scenario (rotating), both drivers
                o = sc['outs'][(li + seed()) % len(sc['outs'])]
                for threads in (1, 2 + (li % 3)):
                    jobs.append((sc, o['cfg'], o['out'], threads, None)); metas.append((li, threads))
            with Pool(12) as pool:
                outs = pool.map(run_one, jobs, chunksize=16)
            total_runs += len(jobs)
            stat = {'scenarios_enumerated': len(lines), 'scenarios_replayed': len(pick) - nadv, 'adversarial_skipped': nadv, 'runs': len(jobs),
                    'runs_with_failing_patch': sum(1 for j in jobs if j[2]['exit'] == 1), 'runs_with_backups': sum(1 for j in jobs if j[2]['backups'])}
            res.cov['parts'][tag].update(stat)
            for (sc, cfg, o, threads, _), (probs, rc, se) in zip(jobs, outs):
                for cat, msg in probs:
                    if cat in CATS[prop]:
                        res.violation(cat, '%s: %s (threads %d, backup %s/%s)' % (WHAT[cat], msg, threads, cfg['backup'], cfg['win']),
                                      {'tree0': sc['tree0'], 'series': sc['series'], 'cfg': cfg, 'threads': threads, 'reference': o,
                                       'observed': {'exit': rc, 'stderr': se, 'problems': probs}})
            sc0 = jobs[len(jobs) // 2]
            res.sample({'tree0': {p: (f['cells'] if f['ex'] else None) for p, f in sc0[0]['tree0'].items()},
                        'series': [[(fp['kind'], fp['old'], fp['new'], 'ren' if fp['ren'] else '', fp['hunks'] or fp['to'] or fp['from']) for fp in pt['fps']] for pt in sc0[0]['series']],
                        'cfg': sc0[1], 'reference': {k: sc0[2][k] for k in ('k', 'exit', 'rejects', 'backups')}})
        res.cov['traces_validated_against_impl'] += total_runs
        res.cov['evaluations'] += total_runs
        res.cov['distinct_nontrivial'] += total_runs // 2
        ws.cleanup_all()
    finally:
        shutil.rmtree(work, ignore_errors=True)
    res.cov['exhaustive'] = False
    res.cov['rule'] = ('TLC enumerates every scenario = starting tree x series of up to 2-3 patches with 1-2 file patches drawn from a universe of 17 abstract file patches '
                       '(modify ok/failing/misordered, differing names, rename, rename+change, mode change, create /dev/null|both names|new dir, delete /dev/null|both names|last file in dir) '
                       'and computes the reference Outcome per configuration; a seeded sample of the scenarios (all in the thorough tier up to the stated cap) is materialised and pushed by the real binary '
                       'with 1 and 2-4 threads; non-trivial = not adversarial (rename of an absent source)')
    res.assumptions += ['scen.py concretises cells as 7-line blocks so that each abstract hunk is a real hunk applying at offset 0 / fuzz 0 exactly when the model says so',
                        'umask 022, workspaces on tmpfs']
    return res


def check(prop, tier):
    return check_scenarios(prop, tier)
