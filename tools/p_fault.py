"""C18: an output failure is never reported as success nor recorded as applied.

Fault enumeration on the real binary with two independent injectors:
  (i)  the guarded hook counter (RAPIDQUILT_VERIF_FAIL_AT=k): the k-th output operation (unlink, mkdir, create, chmod,
       write, readdir, rmdir, reject create/write, backup mkdir/create/write, .pc mkdir, applied-patches open/write) fails;
       the parallel driver is pinned by a round-robin baton script so that the operation order is reproducible;
  (ii) strace -e inject on the unmodified code path: the j-th call of each output system call fails with ENOSPC/EIO/EACCES
       (sequential driver, whose system-call order is deterministic).
The recorded hook trace of every faulted run is checked: after the fault event no `append` (record as applied) may follow."""
import json, os, random
from multiprocessing import Pool
from vlib import *
import ws, scen

A0 = {'ex': True, 'cells': [0, 0], 'mode': '755'}
NONE = {'ex': False, 'cells': [], 'mode': 'none'}


def M(p, hs, **kw):
    d = {'kind': 'M', 'old': p, 'new': p, 'ren': False, 'hunks': [{'cell': c, 'from': f, 'to': t} for c, f, t in hs], 'to': [], 'from': [], 'nmode': 'none'}
    d.update(kw)
    return d


SCENARIOS = [
    # modify + delete (directory cleaning) + create in a new directory; then a second patch
    {'name': 'modify-delete-create', 'tree0': {'a': A0, 'b': NONE, 'd/c': {'ex': True, 'cells': [0], 'mode': '644'}, 'd/e': NONE},
     'series': [{'fps': [M('a', [(1, 0, 1)]), {'kind': 'D', 'old': 'd/c', 'new': 'NULL', 'ren': False, 'hunks': [], 'to': [], 'from': [0], 'nmode': 'none'},
                         {'kind': 'C', 'old': 'NULL', 'new': 'n/e', 'ren': False, 'hunks': [], 'to': [1], 'from': [], 'nmode': '755'}]},
                {'fps': [M('a', [(2, 0, 1)])]}]},
    # rename + failing second patch: rejects are written
    {'name': 'rename-then-failure', 'tree0': {'a': A0, 'b': NONE, 'd/c': {'ex': True, 'cells': [0], 'mode': '644'}, 'd/e': NONE},
     'series': [{'fps': [M('a', [(1, 0, 1)], new='b', ren=True)]},
                {'fps': [M('d/c', [(1, 5, 1)]), M('b', [(2, 5, 1)])]}]},
    # three patches on one file, backups of each
    {'name': 'chain', 'tree0': {'a': A0, 'b': {'ex': True, 'cells': [], 'mode': '644'}, 'd/c': NONE, 'd/e': NONE},
     'series': [{'fps': [M('a', [(1, 0, 1)])]}, {'fps': [M('a', [(2, 0, 1)]), {'kind': 'C', 'old': 'b', 'new': 'b', 'ren': False, 'hunks': [], 'to': [0], 'from': [], 'nmode': 'none'}]},
                {'fps': [M('a', [(1, 1, 2)], nmode='644')]}]},
    # the very first patch of the push does not apply (its other file patch does): everything is rolled back and written back
    {'name': 'first-patch-fails', 'tree0': {'a': A0, 'b': NONE, 'd/c': {'ex': True, 'cells': [0], 'mode': '644'}, 'd/e': NONE},
     'series': [{'fps': [M('d/c', [(1, 0, 1)]), M('a', [(1, 5, 1), (2, 0, 1)])]},
                {'fps': [M('a', [(1, 0, 1)])]}]},
]
FLAGS = ['-a', '-q', '--backup', 'always', '--backup-count', 'all']
# the other backup modes: fewer operations, other paths through the drivers' error handling
ALT_FLAGS = {'never': ['-a', '-q', '--backup', 'never'], 'default': ['-a', '-q']}


def setup(sc):
    w = ws.mkws('c18')
    tree0 = dict(sc['tree0'])
    scen.materialise(w, {p: f for p, f in tree0.items()}, sc['series'])
    return w


def round_robin(sc):
    keys = sorted({fp['old'] if fp['old'] != 'NULL' else fp['new'] for pt in sc['series'] for fp in pt['fps']} |
                  {fp['new'] for pt in sc['series'] for fp in pt['fps'] if fp['new'] != 'NULL'})
    return ','.join(keys * 60)


def judge(w, rc, se, before_applied, fault_path, fault_op, trace_events):
    probs = []
    if ws.crashed(rc):
        probs.append(('crash', 'exit status %s after an injected failure of %s %s: %s' % (rc, fault_op, fault_path, se.strip()[-200:])))
        return probs
    if rc == 0:
        probs.append(('success-reported', 'exit status 0 although %s of %s failed' % (fault_op, fault_path)))
    base = os.path.basename(fault_path.rstrip('/')) if fault_path else ''
    names_it = ((base and base in se)
                or ('applied patches' in se and ('applied' in fault_op or fault_path.rstrip('/').endswith('.pc')))   # "When saving applied patches."
                or (fault_op in ('mkdirp', 'mkdir') and 'Failed to save' in se)       # names the file whose directory could not be made
                or fault_path in ('', '.'))                                            # the workspace root itself
    if rc != 0 and not names_it:
        probs.append(('no-file-in-message', 'the message does not name the file whose %s failed (%s): %r' % (fault_op, fault_path, se.strip()[-200:])))
    ap = os.path.join(w, '.pc/applied-patches')
    after_applied = open(ap).read() if os.path.exists(ap) else ''
    if 'applied' not in fault_op and after_applied != before_applied:
        probs.append(('recorded', 'patches were recorded (%r) although %s of %s failed' % (after_applied, fault_op, fault_path)))
    if trace_events is not None:
        seen_fault = False
        for ev in trace_events:
            if ev['ev'] == 'fault':
                seen_fault = True
            elif ev['ev'] == 'append' and seen_fault and 'applied' not in fault_op:
                probs.append(('append-after-fault', 'trace: a patch name is appended after the failed operation'))
                break
    return probs


def hook_count(job):
    sc, threads = job[:2]
    flags = ALT_FLAGS[job[2]] if len(job) > 2 else FLAGS
    w = setup(sc)
    try:
        trace = w + '.trace'
        env = {'RAPIDQUILT_VERIF_TRACE': trace}
        if threads > 1:
            env['RAPIDQUILT_VERIF_SCHEDULE'] = round_robin(sc)
        rc, so, se = ws.push(w, flags + ['--threads', threads], env=env)
        evs = [json.loads(l) for l in open(trace)] if os.path.exists(trace) else []
        os.path.exists(trace) and os.unlink(trace)
        io = [e for e in evs if e['ev'] in IO_EVENTS]
        return rc, len(io), [(e['ev'], e.get('path')) for e in io]
    finally:
        ws.rmws(w)


IO_EVENTS = ('unlink', 'mkdirp', 'create', 'chmod', 'write', 'readdir', 'rmdir', 'rej-create', 'rej-write', 'bak-mkdirp', 'bak-create', 'bak-write',
             'pc-mkdir', 'applied-open', 'applied-write')


def hook_fault(job):
    sc, threads, k, kind = job[:4]
    flags = ALT_FLAGS[job[4]] if len(job) > 4 else FLAGS
    w = setup(sc)
    try:
        trace = w + '.trace'
        env = {'RAPIDQUILT_VERIF_TRACE': trace, 'RAPIDQUILT_VERIF_FAIL_AT': str(k), 'RAPIDQUILT_VERIF_FAIL_KIND': kind}
        if threads > 1:
            env['RAPIDQUILT_VERIF_SCHEDULE'] = round_robin(sc)
        rc, so, se = ws.push(w, flags + ['--threads', threads], env=env)
        evs = [json.loads(l) for l in open(trace)] if os.path.exists(trace) else []
        os.path.exists(trace) and os.unlink(trace)
        f = [e for e in evs if e['ev'] == 'fault']
        if not f:
            return None, 'no fault fired (k=%d)' % k
        return judge(w, rc, se, '', f[0]['path'], f[0]['op'], evs), (f[0]['op'], f[0]['path'])
    finally:
        ws.rmws(w)


OUT_CALLS = ('unlink', 'mkdir', 'openat', 'fchmod', 'write', 'rmdir')


def strace_targets(sc):
    """pass 1: the output system calls of a sequential run, with their ordinal per call name"""
    w = setup(sc)
    try:
        rc, se, events = ws.strace_push(w, FLAGS + ['--threads', 1])
        counts, targets = {}, []
        for ev in events:
            if ev['call'] not in OUT_CALLS:
                continue
            counts[ev['call']] = counts.get(ev['call'], 0) + 1
            rel = ws.under(w, ev['path']) if ev['path'] else None
            if ev['write'] and rel is not None and rel != '.':
                targets.append((ev['call'], counts[ev['call']], rel))
        return rc, targets
    finally:
        ws.rmws(w)


def strace_fault(job):
    sc, call, ordinal, rel, errno = job
    w = setup(sc)
    try:
        rc, se, events = ws.strace_push(w, FLAGS + ['--threads', 1], inject='%s:error=%s:when=%d' % (call, errno, ordinal))
        op = {'openat': 'create/open', 'write': 'write', 'unlink': 'unlink', 'mkdir': 'mkdir', 'fchmod': 'chmod', 'rmdir': 'rmdir'}[call]
        if rel.endswith('applied-patches'):
            op += ' applied'
        return judge(w, rc, se, '', rel, op, None), (call, ordinal, rel, errno)
    finally:
        ws.rmws(w)


# ---- (iii) file size limit: short writes ------------------------------------------------------------------
LONG = b'x' * 9000 + b'\n'


def fsize_ws():
    """p1 changes f (18 KB, two long lines) and g; p2 does not apply to f: its reject ends with a 9 KB line."""
    w = ws.mkws('c18f')
    ws.write(w, 'f', b'h\n' + LONG + b'm\n' + LONG)
    ws.write(w, 'g', b'one\n')
    ws.write(w, 'patches/p1.patch', b'--- a/f\n+++ b/f\n@@ -1,2 +1,2 @@\n-h\n+H\n ' + LONG + b'--- a/g\n+++ b/g\n@@ -1 +1 @@\n-one\n+two\n')
    ws.write(w, 'patches/p2.patch', b'--- a/f\n+++ b/f\n@@ -2,3 +2,3 @@\n ' + LONG + b'-does not match\n+M\n ' + LONG)
    ws.write(w, 'series', b'p1.patch\np2.patch\n')
    return w


def fsize_fault(job):
    """The push runs with RLIMIT_FSIZE = limit and SIGXFSZ ignored: the write that crosses the limit is short, the next
    one fails with EFBIG.  Whatever file was cut: the exit status is 1 and the message names it; a cut working file or
    backup means nothing is recorded as applied."""
    import resource, signal, subprocess
    limit, threads, last = job
    w = fsize_ws()
    try:
        def pre():
            signal.signal(signal.SIGXFSZ, signal.SIG_IGN)
            resource.setrlimit(resource.RLIMIT_FSIZE, (limit, limit))
        args = [BIN, 'push', '-q', '--threads', str(threads), '--backup', 'always'] + (['1'] if last == 1 else ['-a']) + (['-p', 'pd'] if ws.alt_patches(w) else [])
        try:
            p = subprocess.run(args, cwd=w, env=ws.ENV, stdout=subprocess.PIPE, stderr=subprocess.PIPE, timeout=120, preexec_fn=pre)
            rc, se = p.returncode, p.stderr.decode('utf-8', 'replace')
        except subprocess.TimeoutExpired:
            return [('crash', 'timeout under a file size limit of %d' % limit)], None
        snap = ws.snapshot(w)
        cut = sorted(p_ for p_, v in snap.items() if not p_.endswith('/') and len(v[0]) == limit)
        probs = []
        if ws.crashed(rc):
            return [('crash', 'exit status %s under a file size limit of %d: %s' % (rc, limit, se.strip()[-200:]))], cut
        if not cut:
            return [], cut
        if rc == 0:
            probs.append(('success-reported', 'exit status 0 although %s was cut at the file size limit %d' % (cut, limit)))
        if not any(os.path.basename(c) in se for c in cut):
            probs.append(('no-file-in-message', 'no message names a file that was cut at the file size limit %d (%s): %r' % (limit, cut, se.strip()[-200:])))
        ap = snap.get('.pc/applied-patches', (b'',))[0]
        if any(not c.endswith('.rej') and c != '.pc/applied-patches' for c in cut) and ap:
            probs.append(('recorded', 'patches were recorded (%r) although %s was cut' % (ap, cut)))
        return probs, cut
    finally:
        ws.rmws(w)


def check(prop, tier):
    res = Result(prop, tier, level='fault_enumeration')
    try:
        # the design: in the driver model every output operation may fail (FailOp counter); a fault is never success and nothing is recorded
        import p_tool
        st = tlc('MC_Push', constants={'Paths': p_tool.PATHS_C, 'W': 2, 'Universe': '<- U_fault', 'FailUpTo': 14 if tier == 'quick' else 20},
                 cfg_body='INIT MCInit\nNEXT MCNext\nINVARIANT FaultNeverSuccess\nINVARIANT SameAsRef\n', tag='push-fault', workers=12)
        res.add_tlc(st, 'MC_Push/U_fault')
        total = 0
        samples = []
        with Pool(12) as pool:
            # (i) hook counter
            combos = [(sc, t) for sc in SCENARIOS for t in ((1, 2) if tier == 'quick' else (1, 2, 3))]
            counts = pool.map(hook_count, combos)
            jobs = []
            for (sc, t), (rc, n, ops) in zip(combos, counts):
                if n == 0:
                    raise ToolError('hook trace is empty: hooks not compiled in?')
                res.cov['parts']['hook/%s/threads%d' % (sc['name'], t)] = {'output_operations': n, 'fault_free_exit': rc}
                jobs += [(sc, t, k, kind) for k in range(1, n + 1) for kind in ('other', 'denied')]
            outs = pool.map(hook_fault, jobs, chunksize=4)
            nf = 0
            for (sc, t, k, kind), (probs, info) in zip(jobs, outs):
                if probs is None:
                    res.diagnostics.append('%s threads %d: %s' % (sc['name'], t, info))
                    continue
                nf += 1
                if len(samples) < 4 and k % 7 == 3:
                    samples.append({'scenario': sc['name'], 'threads': t, 'injector': 'hook', 'k': k, 'failed_operation': info})
                for cat, msg in probs:
                    res.violation(cat + ':' + info[0], msg + ' (hook injector, %s error, %s, threads %d, k=%d)' % (kind, sc['name'], t, k),
                                  {'scenario': sc, 'threads': t, 'fail_at': k, 'operation': info})
            # the same with --backup never and with the default (onfail): every operation once (thorough: both error kinds, 1-2 threads)
            acombos = [(sc, t, m) for sc in SCENARIOS for t in ((1,) if tier == 'quick' else (1, 2)) for m in ('never', 'default')]
            acounts = pool.map(hook_count, acombos)
            ajobs = []
            for (sc, t, m), (rc, n, ops) in zip(acombos, acounts):
                res.cov['parts']['hook/%s/threads%d/backup-%s' % (sc['name'], t, m)] = {'output_operations': n, 'fault_free_exit': rc}
                ajobs += [(sc, t, k, kind, m) for k in range(1, n + 1) for kind in (('other',) if tier == 'quick' else ('other', 'denied'))]
            aouts = pool.map(hook_fault, ajobs, chunksize=4)
            na = 0
            for (sc, t, k, kind, m), (probs, info) in zip(ajobs, aouts):
                if probs is None:
                    continue
                na += 1
                for cat, msg in probs:
                    res.violation(cat + ':' + info[0], msg + ' (hook injector, %s error, %s, threads %d, k=%d, backup %s)' % (kind, sc['name'], t, k, m),
                                  {'scenario': sc, 'threads': t, 'fail_at': k, 'operation': info, 'backup': m})
            nf += na
            total += nf
            res.cov['parts']['hook-injector'] = {'faulted_runs': nf, 'of_them_with_backup_never_or_default': na}
            # (ii) strace injector, sequential driver
            sscen = SCENARIOS[:3] if tier == 'quick' else SCENARIOS
            t1 = pool.map(strace_targets, sscen)
            sjobs = []
            for sc, (rc, targets) in zip(sscen, t1):
                res.cov['parts']['strace/%s' % sc['name']] = {'output_syscalls': len(targets)}
                quick_errnos = {'unlink': ('EACCES', 'EIO'), 'mkdir': ('EACCES',), 'openat': ('EACCES', 'ENOSPC'), 'write': ('ENOSPC',), 'fchmod': ('EPERM',), 'rmdir': ('EACCES',)}
                for i, (call, ordinal, rel) in enumerate(targets):
                    for errno in (quick_errnos[call] if tier == 'quick' else ('ENOSPC', 'EIO', 'EACCES', 'EPERM', 'EROFS')):
                        sjobs.append((sc, call, ordinal, rel, errno))
            souts = pool.map(strace_fault, sjobs, chunksize=2)
            for job, (probs, info) in zip(sjobs, souts):
                if len(samples) < 8 and info[1] % 5 == 2:
                    samples.append({'scenario': job[0]['name'], 'injector': 'strace', 'syscall': info[0], 'ordinal': info[1], 'path': info[2], 'errno': info[3]})
                for cat, msg in probs:
                    res.violation(cat + ':' + info[0], msg + ' (strace injector: %s #%d on %s = %s, %s)' % (info[0], info[1], info[2], info[3], job[0]['name']),
                                  {'scenario': job[0], 'syscall': info[0], 'ordinal': info[1], 'path': info[2], 'errno': info[3]})
            total += len(sjobs)
            res.cov['parts']['strace-injector'] = {'faulted_runs': len(sjobs)}
            # (iii) file size limit
            limits = [1, 3, 100, 4096, 8192, 9001, 9005, 9500, 12000, 18000, 18005, 18020, 18100, 20000] if tier == 'quick' else sorted(set(list(range(1, 64, 7)) + list(range(8000, 19000, 250)) + [9001, 9005, 18005, 18020, 18100, 20000]))
            fjobs = [(L, t, last) for L in limits for t in (1, 2) for last in (1, 2)]
            fouts = pool.map(fsize_fault, fjobs, chunksize=2)
            ncut = 0
            for (L, t, last), (probs, cut) in zip(fjobs, fouts):
                ncut += 1 if cut else 0
                for cat, msg in probs:
                    res.violation(cat + ':fsize', msg + ' (file size limit, threads %d, push %s)' % (t, '1' if last == 1 else '-a'), {'limit': L, 'threads': t, 'cut_files': cut})
            if ncut == 0:
                raise ToolError('file size limit injector cut no file')
            total += len(fjobs)
            res.cov['parts']['fsize-injector'] = {'faulted_runs': len(fjobs), 'runs_with_a_cut_file': ncut}
        res.cov['evaluations'] = total
        res.cov['distinct_nontrivial'] = total
        res.cov['traces_validated_against_impl'] = total
        res.cov['samples'] = samples or [{'note': 'no sample'}]
        ws.cleanup_all()
    finally:
        pass
    res.cov['exhaustive'] = True
    res.cov['rule'] = ('for each of 3 workspaces (modify+delete+create in new directory; rename then failing patch with rejects; chain of three patches with a create over an empty file), --backup always: '
                       'every output operation seen by the hook counter fails once (k = 1..n; sequential and, pinned by a round-robin baton script, 2-3 threads), and every output system call of the sequential run fails '
                       'once under strace injection; distinct = distinct (workspace, driver, failing operation)')
    res.assumptions += ['the hooks sit on every output path (cross-checked by the strace injector, which needs no hook)', 'strace -e inject']
    return res
