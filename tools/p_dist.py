"""C07: related file names always go to the same worker."""
import json, os, random
from vlib import *

CFG = """
INIT Init
NEXT Next
INVARIANT AlgRefinesRef
INVARIANT Emit
"""
VAL_CFG = """
INIT Init
NEXT Next
INVARIANT AlgOk
INVARIANT Emit
"""
PLAN = {
    'quick': [('adds4-names4', {'Names': '{"A","B","C","D"}', 'NONE': '"-"', 'MaxAdds': 4, 'Threads': '{1,2,3,4096}', 'EmitCases': 'TRUE'}, 0),
              ('random-adds10-names7', None, 24000)],
    'thorough': [('adds4-names5', {'Names': '{"A","B","C","D","E"}', 'NONE': '"-"', 'MaxAdds': 4, 'Threads': '{1,2,3,4096}', 'EmitCases': 'TRUE'}, 0),
                 ('random-adds12-names8', None, 240000)],
}


def gen_adds(rnd, names, maxlen, k):
    """Add sequences of four shapes (k mod 4): uniform; names registered first (in a random order) and then
    related; a star (many names related to one hub, the shape union-find mistakes need); relations that
    prefer to merge two different components."""
    shape = k % 4
    adds = []
    if shape == 0:
        for _ in range(rnd.randint(4, maxlen)):
            x = rnd.choice(names)
            y = rnd.choice(names + ['-']) if rnd.random() < 0.8 else '-'
            adds.append([x, y])
        return adds
    pool = names[:]
    rnd.shuffle(pool)
    pool = pool[:rnd.randint(4, len(pool))]
    if shape != 3 or rnd.random() < 0.5:
        # registration order: some or all names are first seen alone
        pre = pool[:rnd.randint(0, len(pool))]
        rnd.shuffle(pre)
        adds += [[x, '-'] for x in pre]
    comp = {x: x for x in pool}
    def find(x):
        while comp[x] != x:
            x = comp[x]
        return x
    if shape == 2:
        hub = rnd.choice(pool)
        spokes = [x for x in pool if x != hub]
        rnd.shuffle(spokes)
        for x in spokes:
            adds.append([x, hub] if rnd.random() < 0.7 else [hub, x])
            if rnd.random() < 0.15:
                adds.append([rnd.choice(pool), rnd.choice(pool + ['-'])])
        return adds
    for _ in range(rnd.randint(3, maxlen)):
        x = rnd.choice(pool)
        others = [y for y in pool if find(y) != find(x)]
        if others and rnd.random() < 0.75:
            y = rnd.choice(others)
            comp[find(y)] = find(x)
        else:
            y = rnd.choice(pool + ['-'])
        adds.append([x, y])
    return adds


def check(prop, tier):
    res = Result(prop, tier)
    work = scratch(prop)
    rnd = random.Random(seed())
    try:
        for tag, consts, nrandom in PLAN[tier]:
            out = os.path.join(work, tag + '.tlc')
            if consts is None:
                # seeded random sequences beyond the exhaustive bound; TLC (Val_Dist) checks the algorithm model on them
                # and computes the components the real distributor is compared with
                names = ['A', 'B', 'C', 'D', 'E', 'F', 'G', 'H'][:7 if tier == 'quick' else 8]
                recs = os.path.join(work, tag + '.ndjson')
                with open(recs, 'w') as f:
                    for k in range(nrandom):
                        f.write(json.dumps({'id': k, 'adds': gen_adds(rnd, names, 10 if tier == 'quick' else 12, k)}) + '\n')
                st = tlc('Val_Dist', constants={'Names': '{' + ','.join('"%s"' % x for x in names) + '}', 'NONE': '"-"', 'Threads': '{1,2,3,5,4096}'},
                         cfg_body=VAL_CFG, out=out, tag=tag, env={'RQ_RECORDS': recs})
            else:
                st = tlc('MC_Dist', constants=consts, cfg_body=CFG, out=out, tag=tag)
            res.add_tlc(st, tag)
            rep = json.loads(rqh(['dist', out, '-', '1,2,3,4,7,16,4096']))
            c = rep['counts']
            res.cov['parts'][tag].update(c)
            if c.get('cases', 0) == 0:
                raise ToolError(tag + ': no cases')
            res.cov['traces_validated_against_impl'] += c.get('runs', 0)
            res.cov['evaluations'] += c.get('runs', 0)
            res.cov['distinct_nontrivial'] += c.get('cases_with_relation', 0)
            for s in rep['first_cases'][:1]:
                res.sample({'from': tag, 'case': s})
            for key in ('split_component', 'panic', 'missing_name', 'thread_out_of_range', 'extra_names'):
                for s in rep['samples'].get(key, []):
                    res.violation(key, s['what'], s)
            os.unlink(out)
        # at the level of the tool: scenarios in which file patches relate two names (differing ---/+++ names, renames);
        # if related names were handled by two workers, a worker would patch a stale copy: the parallel result must be the reference
        import p_tool, ws, re
        from multiprocessing import Pool
        out, st = p_tool.enumerate_scenarios(res, 'related-names-scenarios', 'TreesSmall' if tier == 'quick' else 'TreesAll', 'TRUE', 2, 'Cfgs_one', work, 'FALSE')
        alllines = [l for l in open(out, errors='replace') if l.startswith('"{')]
        lines = [l for l in alllines if re.search(r'\\"old\\":\\"a\\",\\"new\\":\\"b\\"', l)]
        os.unlink(out)
        pick = rnd.sample(lines, min(len(lines), 1200 if tier == 'quick' else 15000))
        # two different old names for one new name (nothing in the series may be dispatched under the shared name)
        both = [l for l in lines if re.search(r'\\"old\\":\\"d/c\\",\\"new\\":\\"b\\"', l)]
        pick += both if len(both) <= 600 else rnd.sample(both, 600 if tier == 'quick' else 6000)
        # "no file is ever loaded or written by two workers": patches with two file patches for different files (their
        # file patches are dealt out to the workers one by one), followed by a patch that touches one of them again
        multi = []
        for l in rnd.sample(alllines, min(len(alllines), 12000 if tier == 'quick' else 120000)):
            if '\\"exit\\":0' not in l:
                continue
            sc = json.loads(json.loads(l))
            fps = sc['series'][0]['fps']
            name = lambda fp: fp['new'] if fp['old'] == 'NULL' else fp['old']
            if len(fps) == 2 and name(fps[0]) != name(fps[1]) and not sc['outs'][0]['out']['adversarial'] and sc['outs'][0]['out']['exit'] == 0:
                multi.append(l)
        pick += multi[:1200 if tier == 'quick' else 15000]
        # series of three patches that relate names (a file is deleted, patched through the other name, patched under its own)
        out3, st3 = p_tool.enumerate_scenarios(res, 'related-names-3patches', 'TreesSmall', 'FALSE', 3, 'Cfgs_one', work, 'FALSE')
        l3 = [l for l in open(out3, errors='replace') if l.startswith('"{') and re.search(r'\\"old\\":\\"a\\",\\"new\\":\\"b\\"', l)]
        os.unlink(out3)
        pick += rnd.sample(l3, min(len(l3), 1200 if tier == 'quick' else 15000))
        jobs = []
        for li, line in enumerate(pick):
            sc = json.loads(json.loads(line))
            o = sc['outs'][0]
            if o['out']['adversarial']:
                continue
            jobs.append((sc, dict(o['cfg'], names=1) if li % 2 else o['cfg'], o['out'], 2 + li % 3, None))    # every other one with the alternate spellings of names
        with Pool(12) as pool:
            outs = pool.map(p_tool.run_one, jobs, chunksize=16)
        nb = 0
        for (sc, cfg, o, threads, _), (probs, rc, se) in zip(jobs, outs):
            for cat, msg in probs:
                if cat in ('tree', 'crash', 'rej-set', 'exit', 'backup-content', 'backup-set'):
                    nb += 1
                    res.violation('cli:' + cat, 'series that relates file names, %d threads: the result is not the reference one (%s)' % (threads, msg),
                                  {'tree0': sc['tree0'], 'series': sc['series'], 'cfg': cfg, 'threads': threads, 'reference': o})
        res.cov['parts']['related-names-scenarios'].update({'scenarios_relating_names': len(lines), 'two_file_patch_scenarios': len(multi), 'runs': len(jobs), 'bad': nb})
        res.cov['traces_validated_against_impl'] += len(jobs)
        ws.cleanup_all()
    finally:
        shutil.rmtree(work, ignore_errors=True)
    res.cov['exhaustive'] = True
    res.cov['rule'] = ('every sequence of add(x, y|none) calls up to MaxAdds over the names (TLC, exhaustive) plus seeded random sequences of 4-12 calls over 7-8 names judged by TLC (Val_Dist); '
                       'each sequence x thread count in {1,2,3,4,7,16,4096} is one run of the real FilenameDistributor; non-trivial = has at least one relation')
    res.assumptions += ['TLC computes connected components (Ref); harness compares the real name->thread map against them']
    return res
