"""C07: related file names always go to the same worker."""
import json, os
from vlib import *

CFG = """
INIT Init
NEXT Next
INVARIANT AlgRefinesRef
INVARIANT Emit
"""
PLAN = {
    'quick': [('adds4-names4', {'Names': '{"A","B","C","D"}', 'NONE': '"-"', 'MaxAdds': 4, 'Threads': '{1,2,3,4096}', 'EmitCases': 'TRUE'}, None)],
    'thorough': [('adds4-names5', {'Names': '{"A","B","C","D","E"}', 'NONE': '"-"', 'MaxAdds': 4, 'Threads': '{1,2,3,4096}', 'EmitCases': 'TRUE'}, None),
                 ('sim-adds10-names7', {'Names': '{"A","B","C","D","E","F","G"}', 'NONE': '"-"', 'MaxAdds': 10, 'Threads': '{1,2,3,5,4096}', 'EmitCases': 'TRUE'},
                  'num=20000')],
}


def check(prop, tier):
    res = Result(prop, tier)
    work = scratch(prop)
    try:
        for tag, consts, sim in PLAN[tier]:
            out = os.path.join(work, tag + '.tlc')
            extra = ['-depth', '12', '-seed', str(seed())] if sim else []
            st = tlc('MC_Dist', constants=consts, cfg_body=CFG, out=out, tag=tag, simulate=sim, extra=extra)
            if sim:
                st['distinct'] = st['distinct'] or 0
            res.add_tlc(st, tag)
            rep = json.loads(rqh(['dist', out, '-', '1,2,3,4,7,16,4096']))
            c = rep['counts']
            res.cov['parts'][tag].update(c)
            if c.get('cases', 0) == 0:
                raise ToolError(tag + ': no cases')
            if sim:
                res.cov['states'] += c['cases']; res.cov['transitions'] += c['cases']
            res.cov['traces_validated_against_impl'] += c.get('runs', 0)
            res.cov['evaluations'] += c.get('runs', 0)
            res.cov['distinct_nontrivial'] += c.get('cases_with_relation', 0)
            for s in rep['first_cases'][:1]:
                res.sample({'from': tag, 'case': s})
            for key in ('split_component', 'panic', 'missing_name', 'thread_out_of_range', 'extra_names'):
                for s in rep['samples'].get(key, []):
                    res.violation(key, s['what'], s)
            os.unlink(out)
    finally:
        shutil.rmtree(work, ignore_errors=True)
    res.cov['exhaustive'] = True
    res.cov['rule'] = ('every sequence of add(x, y|none) calls up to MaxAdds over the names (TLC, exhaustive; thorough adds simulated longer sequences); '
                       'each sequence x thread count in {1,2,3,4,7,16,4096} is one run of the real FilenameDistributor; non-trivial = has at least one relation')
    res.assumptions += ['TLC computes connected components (Ref); harness compares the real name->thread map against them']
    return res
