#!/usr/bin/env python3
"""Consolidate the seeded changes: merge the confirmation run and all later check runs recorded under
/tmp/seed-out/*.result|.rN into seeded/<id>/meta.json and write seeded/INDEX.md."""
import json, os, glob, shutil
V = os.path.dirname(os.path.dirname(os.path.abspath(__file__)))
SO = '/tmp/seed-out'
rows = []
for d in sorted(glob.glob(os.path.join(SO, 'C[0-9][0-9]-[0-9]*'))):
    sid = os.path.basename(d)
    runs = glob.glob(os.path.join(SO, sid + '.result')) + sorted(glob.glob(os.path.join(SO, sid + '.r[0-9]*')), key=lambda x: int(x.rsplit('.r', 1)[1]))
    conf, checks = None, {}
    for r in runs:
        try:
            j = json.load(open(r))
        except Exception:
            continue
        if j.get('confirmed') is not None and 'tests_pass_with_change' in j and conf is None:
            conf = {k: j.get(k) for k in ('repo_head', 'tests_pass_with_change', 'demo_with_change_rc', 'demo_without_change_rc', 'confirmed')}
        for p, c in j.get('checks', {}).items():
            checks[p] = {'rc': c['rc'], 'wall_s': c['wall_s'], 'repo_head': j.get('repo_head'), 'lines': c.get('lines', [])[:2]}
    if conf is None or not conf.get('confirmed'):
        continue
    meta = json.load(open(os.path.join(d, 'meta.json')))
    out = os.path.join(V, 'seeded', sid)
    os.makedirs(out, exist_ok=True)
    for fn in os.listdir(d):
        if fn != 'meta.json' and os.path.isfile(os.path.join(d, fn)):
            shutil.copy(os.path.join(d, fn), out)
    m = dict(meta)
    m['breaks_property'] = meta['property']
    m['confirmed_by_us'] = conf
    m['what_we_ran'] = ['scratch worktree of /repo HEAD; git apply patch.diff; cargo build --offline; cargo test --offline (49 pass); bash demo.sh <binary> (non-zero); git checkout -- .; rebuild; bash demo.sh <binary> (zero)',
                        'VERIF_REPO=<worktree> python3 tools/check.py <prop> --tier quick  (tools/seedtest.py)']
    m['checks'] = checks
    m['detected_by'] = sorted(p for p, c in checks.items() if c['rc'] == 1)
    json.dump(m, open(os.path.join(out, 'meta.json'), 'w'), indent=1)
    rows.append((sid, meta['property'], meta.get('summary', '')[:110], meta.get('needs', '')[:90], m['detected_by'], sorted(p for p, c in checks.items() if c['rc'] == 0)))
with open(os.path.join(V, 'seeded', 'INDEX.md'), 'w') as f:
    f.write('# Seeded changes (from independent sub-agents) and the checks that catch them\n\n')
    f.write('| id | breaks | change | needs | caught by | ran clean |\n|---|---|---|---|---|---|\n')
    for r in rows:
        f.write('| %s | %s | %s | %s | %s | %s |\n' % (r[0], r[1], r[2].replace('|', '/'), r[3].replace('|', '/'), ', '.join(r[4]) or '**none**', ', '.join(r[5])))
    n = len(rows); c = sum(1 for r in rows if r[4])
    f.write('\n%d seeded changes kept, %d caught by at least one check.\n' % (n, c))
print(len(rows), 'kept;', sum(1 for r in rows if r[4]), 'caught')
