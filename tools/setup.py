#!/usr/bin/env python3
"""Offline setup: build /repo's binary (hooks on) and the harness."""
import sys, os
sys.path.insert(0, os.path.dirname(os.path.abspath(__file__)))
from vlib import *
try:
    build()
except ToolError as e:
    print('TOOL-ERROR:', e, file=sys.stderr); sys.exit(2)
