"""Concretiser: abstract lines / hunks / file patches -> bytes of files and of unified diffs in the
header dialects rapidquilt accepts.  Kept small; the mapping is injective per variant (checked by
round-tripping in p_diff.selfcheck)."""

NONL = b'\\ No newline at end of file\n'


def spell(sym, variant):
    """Byte spelling of an abstract line symbol; trailing '~' = no final newline.  Same table as harness/src/util.rs."""
    eol = not sym.endswith('~')
    core = (sym[:-1] if not eol else sym).encode()
    v = variant % 5
    if v == 0:
        b = core
    elif v == 1:
        b = core + (b'\r' if eol else b'')
    elif v == 2:
        b = b'\xff' + core + b'\x00'
    elif v == 3:
        b = b'-- ' + core
    else:
        b = b'@@ -1 +1 @@ ' + core + b' \\'
    return b + (b'\n' if eol else b'')


def file_bytes(lines, variant):
    return b''.join(spell(s, variant) for s in lines)


def _line(prefix, sym, variant):
    b = spell(sym, variant)
    if b.endswith(b'\n'):
        return prefix + b
    return prefix + b + b'\n' + NONL


def rng(start0, count):
    """Unified range: 1-based first line, or the line before an empty side."""
    first = start0 + 1 if count > 0 else start0
    return (first, count)


def hunk_text(h, variant, short_counts=False, func=b''):
    """h: {pre, post, body:[[t,s]..] or del/ins, os, ns}"""
    body = h.get('body')
    if body is None:
        body = [['D', s] for s in h['del']] + [['I', s] for s in h['ins']]
    oc = len(h['pre']) + len(h['post']) + sum(1 for t, _ in body if t in 'KD')
    nc = len(h['pre']) + len(h['post']) + sum(1 for t, _ in body if t in 'KI')
    (o, oc_), (n, nc_) = rng(h['os'], oc), rng(h['ns'], nc)

    def r(a, c):
        return ('%d' % a) if (short_counts and c == 1) else ('%d,%d' % (a, c))
    out = [('@@ -%s +%s @@' % (r(o, oc_), r(n, nc_))).encode() + ((b' ' + func) if func else b'') + b'\n']
    for s in h['pre']:
        out.append(_line(b' ', s, variant))
    for t, s in body:
        out.append(_line({'K': b' ', 'D': b'-', 'I': b'+'}[t], s, variant))
    for s in h['post']:
        out.append(_line(b' ', s, variant))
    return b''.join(out)


def cquote(name):
    out = '"'
    for ch in name.encode():
        if ch in (0x22, 0x5c):
            out += '\\' + chr(ch)
        elif ch < 0x21 or ch > 0x7e:
            out += '\\%03o' % ch
        else:
            out += chr(ch)
    return out + '"'


# Header dialects.  Each returns (header bytes, strip level, file name on disk, expresses_absence)
# for a patch that changes `name`; a_absent / b_absent say that the old / new file does not exist.
def dialects(name='f.c'):
    ts = '\t2024-02-03 04:05:06.123456789 +0100'
    epoch = '\t1970-01-01 00:00:00.000000000 +0000'
    q = 'f x.c'          # a name that needs quoting

    def plain(pre_a, pre_b, strip, n=name, suf_a='', suf_b='', lead=''):
        def f(a_absent, b_absent):
            return ('%s--- %s%s%s\n+++ %s%s%s\n' % (lead, pre_a, n, suf_a, pre_b, n, suf_b)).encode(), strip, n, False
        return f

    def devnull(a_absent, b_absent):
        o = '/dev/null' if a_absent else 'a/' + name
        n = '/dev/null' if b_absent else 'b/' + name
        return ('--- %s\n+++ %s\n' % (o, n)).encode(), 1, name, True

    def epoch_ts(a_absent, b_absent):
        return ('--- a/%s%s\n+++ b/%s%s\n' % (name, epoch if a_absent else ts, name, epoch if b_absent else ts)).encode(), 1, name, False

    def git(a_absent, b_absent):
        h = 'diff --git a/%s b/%s\n' % (name, name)
        if a_absent:
            h += 'new file mode 100644\nindex 0000000..1234abc\n--- /dev/null\n+++ b/%s\n' % name
        elif b_absent:
            h += 'deleted file mode 100644\nindex 1234abc..0000000\n--- a/%s\n+++ /dev/null\n' % name
        else:
            h += 'index 1234abc..5678def 100644\n--- a/%s\n+++ b/%s\n' % (name, name)
        return h.encode(), 1, name, True

    def orig(a_absent, b_absent):
        return ('--- a/%s.orig\n+++ b/%s\n' % (name, name)).encode(), 1, name, False

    def quoted(a_absent, b_absent):
        return ('--- %s\n+++ %s\n' % (cquote('a/' + q), cquote('b/' + q))).encode(), 1, q, False

    garbage = ('From: someone\nSubject: [PATCH] x\n\nIndex: %s\n===================================================================\n'
               'diff -u -r1.1 -r1.2\n' % name)
    return {
        'plain-p1': plain('a/', 'b/', 1),
        'plain-p0': plain('', '', 0),
        'plain-p2': plain('x/a/', 'y/b/', 2),
        'timestamps': plain('a/', 'b/', 1, suf_a=ts, suf_b=ts),
        'epoch': epoch_ts,
        'devnull': devnull,
        'git': git,
        'orig': orig,
        'quoted': quoted,
        'garbage': plain('a/', 'b/', 1, lead=garbage),
        # doubled separators inside the part -pN strips: a run of slashes ends one component (GNU patch, Path::components)
        'dslash-p1': plain('a//', 'b//', 1),
        'dslash-p2': plain('x//a/', 'y/b///', 2),
    }
