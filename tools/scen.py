"""Tool-level scenarios (cell abstraction, DESIGN 2.3): concretise, materialise as a workspace, run the
real binary, snapshot, and compare with the reference Outcome computed by TLC (Outcome.tla)."""
import os, re, stat
import ws

PATHS = ['a', 'b', 'd/c', 'd/e']

# Concrete spellings of the abstract paths.  Variant 1 uses a name that is not valid UTF-8, one that
# needs quoting in patch headers (a blank), and puts the abstract directory d two levels deep (d/s: the
# two directories exist together); str with surrogate escapes stands for the raw bytes.
NAME_VARIANTS = [
    {'a': 'a', 'b': 'b', 'd/c': 'd/c', 'd/e': 'd/e'},
    {'a': 'a.c', 'b': b'b\xe9.txt'.decode('utf-8', 'surrogateescape'), 'd/c': 'd/s/c x.h', 'd/e': 'd/s/e'},
]
NAMES = NAME_VARIANTS[0]


SPELL = [0, 0]     # [alternate spellings on?, running count of names rendered]


def set_names(variant):
    """Variant 1 also spells every other name in a patch header with a doubled slash and a `.` component:
    another text, the same path (the tool compares paths, not their spellings)."""
    global NAMES
    NAMES = NAME_VARIANTS[variant % len(NAME_VARIANTS)]
    SPELL[0] = variant % len(NAME_VARIANTS)
    SPELL[1] = 0


def conc(p):
    return NAMES.get(p, p)


def abstract(p):
    for k, v in NAMES.items():
        if v == p:
            return k
    return p


def nbytes(s):
    return s.encode('utf-8', 'surrogateescape')


def block(k, v):
    return [b'ctx %d.%d\n' % (k, i) for i in (1, 2, 3)] + [b'cell %d = %d\n' % (k, v)] + [b'ctx %d.%d\n' % (k, i) for i in (4, 5, 6)]


def content(cells):
    out = []
    for k, v in enumerate(cells, 1):
        out += block(k, v)
    return b''.join(out)


def cells_of(data):
    """inverse of content(); None if the bytes are not a concretised file"""
    cells = []
    lines = data.split(b'\n')
    if data and not data.endswith(b'\n'):
        return None
    lines = lines[:-1]
    if len(lines) % 7:
        return None
    for k in range(len(lines) // 7):
        m = re.match(rb'cell (\d+) = (\d+)$', lines[7 * k + 3])
        if not m or int(m.group(1)) != k + 1:
            return None
        cells.append(int(m.group(2)))
    if content(cells) != data:
        return None
    return cells


def hunk_text(h):
    s = 7 * (h['cell'] - 1) + 1
    b = block(h['cell'], h['from'])
    return (b'@@ -%d,7 +%d,7 @@\n' % (s, s) + b''.join(b' ' + l for l in b[:3]) + b'-' + b[3]
            + b'+' + block(h['cell'], h['to'])[3] + b''.join(b' ' + l for l in b[4:]))


def create_hunk(cells):
    ls = content(cells).splitlines(True)
    return b'@@ -0,0 +1,%d @@\n' % len(ls) + b''.join(b'+' + l for l in ls)


def delete_hunk(cells):
    ls = content(cells).splitlines(True)
    return b'@@ -1,%d +0,0 @@\n' % len(ls) + b''.join(b'-' + l for l in ls)


def fp_hunks(fp):
    """list of hunk texts of a file patch, in order"""
    if fp['kind'] == 'E':
        return [hunk_text({'cell': 1, 'from': 0, 'to': 1})]
    if fp['kind'] == 'M':
        return [hunk_text(h) for h in fp['hunks']]
    if fp['kind'] == 'C':
        return [create_hunk(fp['to'])] if fp['to'] else [b'@@ -0,0 +0,0 @@\n']
    return [delete_hunk(fp['from'])] if fp['from'] else [b'@@ -0,0 +0,0 @@\n']


def name(p, pre):
    if p == 'NULL':
        return b'/dev/null'
    c = conc(p)
    if SPELL[0]:
        SPELL[1] += 1
        if SPELL[1] % 2 == 0:
            c = '/' + c.replace('/', '/./', 1)          # a//d/./s/e : the same path as a/d/s/e
    full = nbytes(pre + '/' + c)
    if any(c in full for c in b' \t"\\'):
        return b'"' + full.replace(b'\\', b'\\\\').replace(b'"', b'\\"') + b'"'
    return full


def render_fp(fp, pre=('a', 'b')):
    if fp['kind'] == 'E' and fp['ren']:
        # an error in the middle of a step: a rename whose new name is a directory (zdir, made by materialise) cannot be loaded
        o = nbytes(conc(fp['old']))
        return b'diff --git ' + name(fp['old'], pre[0]) + b' ' + pre[1].encode() + b'/zdir\nrename from ' + o + b'\nrename to zdir\n'
    if fp['kind'] == 'E':
        # refused with an error: the new name leaves the working tree (the old name keeps it with that file's worker)
        o, n = name(fp['old'], pre[0]), name(fp['old'], pre[1] + '/..')
        return b'diff --git ' + o + b' ' + n + b'\n--- ' + o + b'\n+++ ' + n + b'\n' + fp_hunks(fp)[0]
    o = fp['old'] if fp['old'] != 'NULL' else fp['new']
    n = fp['new'] if fp['new'] != 'NULL' else fp['old']
    if fp['kind'] == 'C' and not fp['to']:
        # git's creation of a zero-length file: header only
        return b'diff --git ' + name(n, pre[0]) + b' ' + name(n, pre[1]) + b'\nnew file mode 100' + (fp['nmode'] if fp['nmode'] != 'none' else '644').encode() + b'\nindex 0000000..e69de29\n'
    if fp['kind'] == 'D' and not fp['from']:
        return b'diff --git ' + name(o, pre[0]) + b' ' + name(o, pre[1]) + b'\ndeleted file mode 100644\nindex e69de29..0000000\n'
    out = [b'diff --git ' + name(o, pre[0]) + b' ' + name(n, pre[1]) + b'\n']
    if fp['ren']:
        out.append(b'rename from ' + nbytes(conc(o)) + b'\nrename to ' + nbytes(conc(n)) + b'\n')
    if fp['nmode'] != 'none':
        if fp['kind'] == 'C':
            out.append(b'new file mode 100' + fp['nmode'].encode() + b'\n')
        else:
            out.append(b'old mode 100644\nnew mode 100' + fp['nmode'].encode() + b'\n')
    hs = fp_hunks(fp) if (fp['kind'] != 'M' or fp['hunks']) else []
    if hs:
        out.append(b'--- ' + name(fp['old'], pre[0]) + b'\n+++ ' + name(fp['new'], pre[1]) + b'\n')
        out += hs
    return b''.join(out)


def patch_name(i):
    return 'p%d.patch' % i


def has_zdir(series):
    return any(fp['kind'] == 'E' and fp['ren'] for pt in series for fp in pt['fps'])


def materialise(w, tree0, series, series_opts=None, strip_pre=('a', 'b')):
    SPELL[1] = 0            # the same scenario is always spelled the same way
    for p, f in tree0.items():
        if f['ex']:
            ws.write(w, conc(p), content(f['cells']), int(f['mode'], 8) if f['mode'] != 'none' else 0o644)
    if has_zdir(series):
        ws.write(w, 'zdir/keep', b'keep\n')
    lines = []
    for i, pt in enumerate(series, 1):
        ws.write(w, 'patches/' + patch_name(i), b''.join(render_fp(fp, strip_pre) for fp in pt['fps']))
        lines.append(patch_name(i) + ((' ' + series_opts[i - 1]) if series_opts and series_opts[i - 1] else ''))
    ws.write(w, 'series', ('\n'.join(lines) + '\n').encode())


def rej_name(path):
    d, b = os.path.split(path)
    return os.path.join(d, b + '.rej')


def flags(cfg, threads, extra=()):
    a = ['-a'] if cfg.get('goal') is None else list(cfg['goal'])
    a += ['--threads', str(threads), '--backup', cfg['backup']]
    a += ['--backup-count', 'all' if cfg['win'] < 0 else str(cfg['win'])]
    if cfg.get('dry'):
        a.append('--dry-run')
    return a + list(extra)


def expected_files(out, series, first=0, applied_before=()):
    """path -> (bytes, mode or None) the reference demands, excluding reject files"""
    exp = {}
    for p, f in out['tree'].items():
        if f['ex']:
            exp[conc(p)] = (content(f['cells']), int(f['mode'], 8) if f['mode'] != 'none' else 0o644)
    if has_zdir(series):
        exp['zdir/keep'] = (b'keep\n', 0o644)
    for b in out['backups']:
        exp['.pc/%s/%s' % (patch_name(b['patch']), conc(b['path']))] = (content(b['cells']),
                                                                  int(b['mode'], 8) if b['mode'] != 'none' else None)
    return exp


def split_rej(data):
    """Independent reader of the reject-file format: (header bytes, [hunk bytes...])."""
    parts = re.split(rb'(?m)^(?=@@ -)', data)
    return parts[0], parts[1:]


def compare(snap, scenario, out, cfg, rc, stderr, first=0, names_before=()):
    """Returns a list of (category, message)."""
    probs = []
    series = scenario['series']
    if ws.crashed(rc):
        probs.append(('crash', 'exit status %s: %s' % (rc, stderr.strip()[-300:])))
        return probs
    if rc != out['exit']:
        probs.append(('exit', 'exit status %d, reference says %d (%s)' % (rc, out['exit'], stderr.strip()[-200:])))
    exp = expected_files(out, series, first)
    files = {p: v for p, v in snap.items() if not p.endswith('/')}
    dirs = {p for p in snap if p.endswith('/')}
    rej_got = {p for p in files if p.endswith('.rej') and not p.startswith('.pc/')}
    rej_req = {rej_name(conc(r['path'])) for r in out['rejects']}
    rej_opt = {rej_name(conc(r['path'])) for r in out.get('rejectsOptional', [])}
    if not (rej_req <= rej_got <= (rej_req | rej_opt)):
        probs.append(('rej-set', 'reject files %s, reference demands %s (optional %s)' % (sorted(rej_got), sorted(rej_req), sorted(rej_opt))))
    # reject contents: the failed hunks of every file patch of the failing patch for that file, in the order of the patch
    failing_idx = out['failingPatch']
    if failing_idx:
        fps = series[failing_idx - 1]['fps']
        for r in list(out['rejects']) + list(out.get('rejectsOptional', [])):
            rp = rej_name(conc(r['path']))
            if rp not in rej_got:
                continue
            want = []
            for part in r['parts']:
                hs = fp_hunks(fps[part['j'] - 1])
                want += [hs[i - 1] for i in sorted(part['failed']) if i - 1 < len(hs)]
            sections = re.split(rb'(?m)^(?=diff --git )', files[rp][0])
            got, bad_header = [], False
            for sec in sections:
                if not sec:
                    continue
                header, hunks = split_rej(sec)
                got += hunks
                if not header.startswith(b'diff --git ') or b'\n--- ' not in header or b'\n+++ ' not in header:
                    bad_header = True
            if got != want:
                probs.append(('rej-content', '%s does not hold exactly the failed hunks (%d expected, %d found): %r' % (rp, len(want), len(got), files[rp][0][:300])))
            if bad_header:
                probs.append(('rej-content', '%s has a section without a proper header: %r' % (rp, files[rp][0][:200])))
    # files
    for p in set(files) | set(exp):
        if p in rej_got:
            continue
        if p == '.pc/applied-patches':
            continue
        if p not in files:
            cat = 'backup-set' if p.startswith('.pc/') else 'tree'
            probs.append((cat, 'missing %s' % p))
        elif p not in exp:
            cat = 'backup-set' if p.startswith('.pc/') else 'tree'
            probs.append((cat, 'unexpected %s (%d bytes)' % (p, len(files[p][0]))))
        else:
            cat = 'backup-content' if p.startswith('.pc/') else 'tree'
            if files[p][0] != exp[p][0]:
                probs.append((cat, 'content of %s: cells %s, reference %s' % (p, cells_of(files[p][0]), cells_of(exp[p][0]))))
            if exp[p][1] is not None and files[p][1] != exp[p][1]:
                probs.append(('backup-mode' if p.startswith('.pc/') else 'tree', 'mode of %s: %o, reference %o' % (p, files[p][1], exp[p][1])))
    # directories of the working tree: exist iff they hold a file
    want_dirs = set()
    for p in files:
        if not p.startswith('.pc/'):
            d = os.path.dirname(p)
            while d:
                want_dirs.add(d + '/')
                d = os.path.dirname(d)
    got_dirs = {d for d in dirs if not d.startswith('.pc')}
    if want_dirs != got_dirs:
        probs.append(('tree', 'directories %s, expected %s' % (sorted(got_dirs), sorted(want_dirs))))
    # applied-patches
    if cfg.get('dry'):
        if any(p.startswith('.pc') for p in snap):
            probs.append(('applied', '.pc exists after a dry run'))
    else:
        want_names = list(names_before) + [patch_name(first + i) for i in range(1, out['applied'] + 1)]
        got = files.get('.pc/applied-patches')
        got_names = got[0].decode('latin-1').split('\n')[:-1] if got else None
        if out.get('error') and not names_before:
            # the push ended in an error before anything was written: there is no .pc at all
            if got is not None or any(p.startswith('.pc') for p in snap):
                probs.append(('applied', '.pc exists after a push that ended in an error before writing anything'))
        elif got_names != want_names:
            probs.append(('applied', '.pc/applied-patches holds %s, reference %s' % (got_names, want_names)))
    return probs


def popsim(snap, out, first=0):
    """C08: restoring the backups newest patch first must give the tree as it was before the oldest backed-up
    patch; returns path -> bytes|None (zero-length backup = did not exist / was empty)."""
    tree = {p: v[0] for p, v in snap.items() if not p.endswith('/') and not p.startswith('.pc/') and not p.endswith('.rej') and p != 'zdir/keep'}
    patches = sorted({b['patch'] for b in out['backups']}, reverse=True)
    for i in patches:
        pre = '.pc/%s/' % patch_name(i)
        for p, v in snap.items():
            if p.startswith(pre) and not p.endswith('/'):
                rel = p[len(pre):]
                if v[0] == b'':
                    tree.pop(rel, None)
                else:
                    tree[rel] = v[0]
    return tree
