#!/usr/bin/env python3
"""Confirm a seeded change and run the checks against it, in a scratch worktree (never in /repo).

  seedtest.py <seed-dir> [--props C02,C03] [--keep <name>]

1. scratch worktree of /repo HEAD under /tmp; apply patch.diff; build; run the 49 tests (must pass);
   run the demonstration (must fail); revert; run it again (must pass).
2. run `check.py <prop> --tier quick` with VERIF_REPO pointing at the patched worktree.
3. with --keep, store patch.diff, the demonstration and meta.json (with what was run) under /verif/seeded/<name>/.
"""
import sys, os, json, subprocess, shutil, argparse, time
V = os.path.dirname(os.path.dirname(os.path.abspath(__file__)))

def sh(cmd, cwd=None, env=None, timeout=3600):
    p = subprocess.run(cmd, shell=isinstance(cmd, str), cwd=cwd, env=env, stdout=subprocess.PIPE, stderr=subprocess.STDOUT, text=True, errors="replace", timeout=timeout)
    return p.returncode, p.stdout

def main():
    ap = argparse.ArgumentParser()
    ap.add_argument('seed'); ap.add_argument('--props', default=None); ap.add_argument('--keep', default=None)
    ap.add_argument('--wt', default='/tmp/wt-seedtest'); ap.add_argument('--skip-confirm', action='store_true')
    a = ap.parse_args()
    seed = os.path.abspath(a.seed)
    meta = json.load(open(os.path.join(seed, 'meta.json')))
    props = (a.props or meta['property']).split(',')
    wt = a.wt
    if not os.path.isdir(wt):
        rc, out = sh(['git', '-C', '/repo', 'worktree', 'add', '-q', '--detach', wt, 'HEAD']); assert rc == 0, out
    else:
        sh(['git', '-C', wt, 'checkout', '-q', '--', '.']); sh(['git', '-C', wt, 'checkout', '-q', '--detach', subprocess.run(['git','-C','/repo','rev-parse','HEAD'],stdout=subprocess.PIPE,text=True).stdout.strip()])
    result = {'seed': seed, 'property': meta['property'], 'repo_head': subprocess.run(['git','-C','/repo','rev-parse','--short','HEAD'],stdout=subprocess.PIPE,text=True).stdout.strip()}
    demo = os.path.join(seed, 'demo.sh')
    env = dict(os.environ, CARGO_NET_OFFLINE='true')
    def build_and(demo_expected_fail):
        rc, out = sh('cargo build --offline 2>&1 | tail -3', cwd=wt, env=env)
        if os.path.exists(demo):
            rc, out = sh(['bash', demo, os.path.join(wt, 'target/debug/rapidquilt')], cwd='/tmp', env=env)
            return rc, out[-800:]
        return None, 'no demo.sh'
    rc, out = sh(['git', '-C', wt, 'apply', os.path.join(seed, 'patch.diff')])
    if rc != 0:
        print('PATCH DOES NOT APPLY', out); result['applies'] = False; print(json.dumps(result)); return 1
    result['applies'] = True
    if not a.skip_confirm:
        rc, out = sh('cargo build --offline 2>&1 | tail -3', cwd=wt, env=env)
        rc, out = sh('cargo test --offline 2>&1 | grep -E "^test result|FAILED|error" ', cwd=wt, env=env)
        result['tests_with_change'] = out.strip().splitlines()
        result['tests_pass_with_change'] = ('FAILED' not in out and 'error' not in out and 'ok. 36 passed' in out and 'ok. 13 passed' in out)
        rc, out = build_and(True)
        result['demo_with_change_rc'] = rc
    # checks against the patched worktree
    result['checks'] = {}
    for prop in props:
        t0 = time.time()
        rc, out = sh([sys.executable, os.path.join(V, 'tools/check.py'), prop, '--tier', 'quick'], cwd=V, env=dict(env, VERIF_REPO=wt))
        viol = [l for l in out.splitlines() if l.startswith('VIOLATION') or l.startswith('  ')][:6]
        result['checks'][prop] = {'rc': rc, 'wall_s': round(time.time() - t0), 'lines': viol}
    sh(['git', '-C', wt, 'checkout', '-q', '--', '.'])
    if not a.skip_confirm:
        rc, out = build_and(False)
        result['demo_without_change_rc'] = rc
    result['confirmed'] = bool(result.get('tests_pass_with_change')) and result.get('demo_with_change_rc') not in (0, None) and result.get('demo_without_change_rc') == 0
    result['detected_by'] = [p for p, r in result['checks'].items() if r['rc'] == 1]
    print(json.dumps(result, indent=1))
    if a.keep:
        d = os.path.join(V, 'seeded', a.keep)
        os.makedirs(d, exist_ok=True)
        for fn in os.listdir(seed):
            if fn != 'meta.json' and os.path.isfile(os.path.join(seed, fn)):
                shutil.copy(os.path.join(seed, fn), d)
        m = dict(meta)
        m['breaks_property'] = meta['property']
        m['confirmed_by_us'] = {k: result.get(k) for k in ('repo_head', 'tests_pass_with_change', 'demo_with_change_rc', 'demo_without_change_rc', 'confirmed')}
        m['what_we_ran'] = ['git apply patch.diff in a scratch worktree of /repo HEAD; cargo build --offline; cargo test --offline (49 pass); bash demo.sh <binary> (non-zero); git checkout -- .; rebuild; bash demo.sh <binary> (zero)',
                            'VERIF_REPO=<worktree> python3 tools/check.py <prop> --tier quick']
        m['checks'] = result['checks']; m['detected_by'] = result['detected_by']
        json.dump(m, open(os.path.join(d, 'meta.json'), 'w'), indent=1)
    return 0
sys.exit(main())
