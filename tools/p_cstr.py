"""File names in patch headers (CString.tla): quoting by the writer, reading by the parser.
Used by C12 (names survive write-then-parse; the writer's spelling is the model's) and by C01 (quoted names on the
command line: a push of a patch that names its file in any of the three spellings patches that file)."""
import json, os
from multiprocessing import Pool
from vlib import *
import ws

CFG = """
INIT Init
NEXT Next
INVARIANT Inv
INVARIANT Emit
"""


def cases(res, work, tag='MC_CString'):
    out = os.path.join(work, 'cstring.tlc')
    st = tlc('MC_CString', constants={'EmitCases': 'TRUE'}, cfg_body=CFG, out=out, tag='cstring', workers=4)
    res.add_tlc(st, tag)
    cs = [{k: bytes(v) for k, v in c.items()} for c in tlc_json_lines(out)]
    os.unlink(out)
    if len(cs) < 254:
        raise ToolError('MC_CString emitted only %d cases' % len(cs))
    return cs


BODY = b'@@ -1 +1 @@\n-a\n+b\n'


def run_roundtrip(res, work):
    """parser and writer against the model, through the harness (no disk involved)"""
    import p_text
    cs = cases(res, work)
    jobs = []
    for ci, c in enumerate(cs):
        for sp in ('q', 'g', 'o'):
            jobs.append({'id': len(jobs), 'ci': ci, 'sp': sp, 'patch': b'--- ' + c[sp] + b'\n+++ ' + c[sp] + b'\n' + BODY})
    inp = '\n'.join(json.dumps({'id': j['id'], 'patch': j['patch'].hex(), 'strip': 0}) for j in jobs) + '\n'
    obs = {r['id']: r for r in (json.loads(l) for l in rqh(['rt'], stdin=inp).split('\n') if l.startswith('{'))}
    bad = 0
    for j in jobs:
        c = cs[j['ci']]
        r = obs.get(j['id'], {'status': 'missing'})
        detail = {'name_bytes': list(c['n']), 'spelling': j['sp'], 'input': j['patch'].decode('latin-1'), 'observed': r}
        why = None
        if r.get('status') != 'ok' or len(r.get('p1', [])) != 1:
            why = ('name-not-read', 'a header naming the file as %r is not accepted (%s)' % (c[j['sp']], r.get('status')))
        elif r['p1'][0]['old'] != c['n'].hex() or r['p1'][0]['new'] != c['n'].hex():
            why = ('name-misread', 'the name written %r is read as %r, not %r' % (c[j['sp']], bytes.fromhex(r['p1'][0]['old'] or ''), c['n']))
        else:
            w1 = bytes.fromhex(r['w1'])
            line = next((l for l in w1.split(b'\n') if l.startswith(b'--- ')), b'')
            # a name with a newline is written on one line by construction of Quote
            if line != b'--- ' + c['q']:
                why = ('name-written-differently', 'the writer spells the name %r as %r, the model as %r' % (c['n'], line[4:], c['q']))
            elif r.get('status2') != 'ok' or len(r.get('p2', [])) != 1 or r['p2'][0]['old'] != c['n'].hex():
                why = ('name-lost-in-written-form', 'the written name %r does not read back as %r' % (line[4:], c['n']))
        if why:
            bad += 1
            res.violation(why[0], why[1], detail)
    res.cov['parts']['names'] = {'names': len(cs), 'renderings': len(jobs), 'bad': bad}
    res.cov['traces_validated_against_impl'] += len(jobs)
    res.cov['evaluations'] += len(jobs)


def cli_one(job):
    n, spelled, rev, threads = job
    w = ws.mkws('cstr')
    try:
        fn = os.fsdecode(n)
        ws.write(w, fn, b'b\n' if rev else b'a\n')
        ws.write(w, 'patches/p1.patch', b'--- ' + spelled + b'\n+++ ' + spelled + b'\n' + BODY)
        ws.write(w, 'series', b'p1.patch -p0' + (b' -R' if rev else b'') + b'\n')
        rc, so, se = ws.push(w, ['-a', '-q', '--threads', threads])
        if rc != 0:
            return 'exit status %s: %s' % (rc, se.strip()[-200:])
        snap = ws.snapshot(w)
        got = snap.get(fn, (None,))[0]
        if got != (b'a\n' if rev else b'b\n'):
            return 'the file named %r holds %r after the push' % (n, got)
        extra = [p for p in snap if p != fn and not p.startswith('.pc') and not p.endswith('/')]
        if extra:
            return 'unexpected files: %r' % extra
        return None
    finally:
        ws.rmws(w)


def run_cli(res, work):
    """C01 with quoted names: every one-byte name (and the emitted two-byte ones) that can be a file of the tree"""
    cs = cases(res, work)
    jobs = []
    for ci, c in enumerate(cs):
        n = c['n']
        if b'/' in n or n in (b'.', b'..'):
            continue                    # not the name of a file in the working directory
        sp = ('g', 'o', 'q')[ci % 3]
        jobs.append((n, c[sp], ci % 2 == 1, 1 + ci % 2))
    with Pool(12) as pool:
        outs = pool.map(cli_one, jobs, chunksize=16)
    bad = 0
    for (n, spelled, rev, threads), why in zip(jobs, outs):
        if why:
            bad += 1
            res.violation('cli:quoted-name', 'push of a patch that names its file %r (%s, threads %d): %s' % (spelled, '-R' if rev else 'forward', threads, why),
                          {'name_bytes': list(n), 'header_name': spelled.decode('latin-1'), 'reverse': rev, 'threads': threads})
    res.cov['parts']['quoted-names-cli'] = {'runs': len(jobs), 'bad': bad}
    res.cov['traces_validated_against_impl'] += len(jobs)
    res.cov['evaluations'] += len(jobs)
    ws.cleanup_all()
