"""C01: a unified diff A->B pushed onto A yields exactly B (and -R onto B yields A).

TLC (MC_Diff) enumerates every edit script within bounds, derives diff's hunks for every context
width (Diff.tla) and checks on the model that they apply exactly; each (A, B, c, hunks) is rendered
in every accepted header dialect and byte spelling and (i) parsed + applied in-process by the real
library in both directions, (ii) for a sample, pushed by the real binary in a workspace.  GNU diff is
used as a second, independent producer of patches for the same file pairs."""
import json, os, random, subprocess
from multiprocessing import Pool
from vlib import *
import render, ws

CFG = """
INIT Init
NEXT Next
INVARIANT DiffApplies
INVARIANT SplitApplies
INVARIANT Emit
"""
PLAN = {
    'quick': {'Sym': '{"a","b"}', 'MaxOps': 5, 'MaxChanges': 3, 'MaxCtx': 2, 'EmitCases': 'TRUE', 'WithNoEol': 'TRUE'},
    'thorough': {'Sym': '{"a","b"}', 'MaxOps': 6, 'MaxChanges': 3, 'MaxCtx': 3, 'EmitCases': 'TRUE', 'WithNoEol': 'TRUE'},
}
CLI_SAMPLE = {'quick': 400, 'thorough': 4000}
KF_TOP = 'zero-context-hunk-at-top-of-file'
KF_EMPTY = 'git-creation-or-deletion-of-empty-file'


def kind_of(hs):
    if len(hs) == 1 and not hs[0]['pre'] and not hs[0]['post']:
        h = hs[0]
        if not h['del'] and h['ins'] and h['os'] == 0:
            return 'C'
        if not h['ins'] and h['del'] and h['ns'] == 0:
            return 'D'
    return 'M'


def jobs_for_case(ci, case, variant, dialect_names):
    """All (dialect, c, direction, absent-variant) renderings of one TLC case."""
    A, B = case['A'], case['B']
    Ab, Bb = render.file_bytes(A, variant), render.file_bytes(B, variant)
    D = render.dialects()
    out = []
    for c, hs in enumerate(case['canon']):
        body = b''.join(render.hunk_text(h, variant, short_counts=(variant % 2 == 0)) for h in hs)
        kind = kind_of(hs)
        ambiguous = (kind == 'C' and A) or (kind == 'D' and B)
        for dn in dialect_names:
            for a_abs in ([False, True] if not A else [False]):
                for b_abs in ([False, True] if not B else [False]):
                    hdr, strip, name, expresses = D[dn](a_abs, b_abs)
                    if (a_abs or b_abs) and not expresses and dn != 'epoch':
                        if b_abs:
                            continue          # cannot say "B is absent" in this dialect
                    patch = hdr + body
                    for rev in (False, True):
                        src, dst = (Ab, Bb) if not rev else (Bb, Ab)
                        s_abs, d_abs = (a_abs, b_abs) if not rev else (b_abs, a_abs)
                        # what may the result be?  absence is only demanded when the dialect states it
                        if d_abs and expresses:
                            allowed = [None]
                        elif not dst:
                            allowed = [None, b''] if (d_abs or not expresses or True) else [b'']
                        else:
                            allowed = [dst]
                        out.append({'id': len(out), 'ci': ci, 'c': c, 'dialect': dn, 'rev': rev, 'a_abs': s_abs, 'b_abs': d_abs,
                                    'a': None if s_abs else src.hex(), 'patch': patch.hex(), 'strip': strip, 'reverse': rev, 'fuzz': 0,
                                    'allowed': [None if x is None else x.hex() for x in allowed], 'name': name, 'nh': len(hs),
                                    'ambiguous': bool(ambiguous), 'kind': kind})
    return out


def judge(job, r):
    """Return None if the observation satisfies C01, else a short reason."""
    if r.get('status') != 'ok':
        return 'status: %s' % r.get('status')
    if r['out'] not in job['allowed']:
        return 'content differs from the expected side'
    if len(r['reports']) != job['nh']:
        return 'number of hunk reports'
    for rep in r['reports']:
        if not rep[0] or rep[2] != 0 or rep[3] != 0:
            return 'hunk not applied exactly (ok=%s offset=%s fuzz=%s)' % (rep[0], rep[2], rep[3])
    want = job['name']
    if r.get('old') not in (want, want + '.orig', None) or r.get('new') not in (want, None):
        return 'file names after strip: old=%r new=%r want %r' % (r.get('old'), r.get('new'), want)
    return None


def cli_case(args):
    """Push one rendered patch with the real binary; returns reason or None."""
    job, threads = args
    w = ws.mkws('c01')
    try:
        name = job['name']
        patch = bytes.fromhex(job['patch'])
        if job['id'] % 3 != 0 and name == 'f.c':
            # the same file in a directory of its own (which a creation has to make and a deletion to remove)
            name = 'nd/sub/f.c'
            patch = patch.replace(b'f.c', b'nd/sub/f.c')
        if job['a'] is not None:
            ws.write(w, name, bytes.fromhex(job['a']))
        ws.write(w, 'patches/p1.patch', patch)
        opts = ' -p%d' % job['strip'] + (' -R' if job['rev'] else '')
        series = 'p1.patch' + opts + '\n'
        applied = b'p1.patch\n'
        if job['dialect'] == 'orig' and job['id'] % 2:
            # the .orig file of the header really exists and an earlier patch of the same push deletes it: what the
            # push has in memory decides which name is patched, not what is still on disk
            ws.write(w, name + '.orig', b'left over\n')
            ws.write(w, 'patches/p0.patch', b'--- a/%s.orig\n+++ /dev/null\n@@ -1 +0,0 @@\n-left over\n' % name.encode())
            series = 'p0.patch\n' + series
            applied = b'p0.patch\np1.patch\n'
        ws.write(w, 'series', series.encode())
        rc, so, se = ws.push(w, ['-a', '-q', '--threads', threads] + (['--mmap'] if (job['id'] // 2) % 2 else []), via_d=(job['id'] // 3) % 2 == 0)
        snap = ws.snapshot(w)
        got = snap.get(name, (None,))[0]
        allowed = [None if x is None else bytes.fromhex(x) for x in job['allowed']]
        if rc != 0:
            return 'exit status %d: %s' % (rc, se.strip()[-200:])
        if got not in allowed:
            return 'file content after push differs'
        extra = [p for p in snap if p != name and not p.startswith('.pc') and not p.endswith('/')]
        if extra:
            return 'unexpected files: %s' % extra
        if snap.get('.pc/applied-patches', (b'',))[0] != applied:
            return 'applied-patches not recorded'
        return None
    finally:
        ws.rmws(w)


def gnu_diff_jobs(cases, variant, limit):
    """Second producer: GNU diff -U c on the concretised files."""
    out = []
    d = scratch('gnudiff')
    try:
        for ci, case in cases[:limit]:
            Ab, Bb = render.file_bytes(case['A'], variant), render.file_bytes(case['B'], variant)
            open(os.path.join(d, 'f.c.orig'), 'wb').write(Ab)
            open(os.path.join(d, 'f.c'), 'wb').write(Bb)
            for c in (0, 1, 3):
                p = subprocess.run(['diff', '-a', '-U%d' % c, 'f.c.orig', 'f.c'], cwd=d, stdout=subprocess.PIPE)
                if p.returncode != 1:
                    continue
                for rev in (False, True):
                    src, dst = (Ab, Bb) if not rev else (Bb, Ab)
                    nh = p.stdout.count(b'\n@@ -')
                    import re
                    m = re.search(rb'^@@ -(\d+)(?:,(\d+))? \+(\d+)(?:,(\d+))? @@', p.stdout, re.M)
                    kind = 'M'
                    if nh == 1 and m and c == 0:
                        if m.group(1) == b'0' and m.group(2) == b'0':
                            kind = 'C'
                        elif m.group(3) == b'0' and m.group(4) == b'0':
                            kind = 'D'
                    out.append({'id': len(out), 'ci': ci, 'c': c, 'dialect': 'gnu-diff', 'rev': rev, 'a': src.hex(), 'patch': p.stdout.hex(),
                                'strip': 0, 'reverse': rev, 'fuzz': 0, 'allowed': [dst.hex()] if dst else [None, ''], 'name': 'f.c', 'nh': nh,
                                'ambiguous': bool(c == 0 and ((kind == 'C' and case['A']) or (kind == 'D' and case['B']))), 'kind': kind,
                                'a_abs': False, 'b_abs': False})
    finally:
        shutil.rmtree(d, ignore_errors=True)
    return out


def run_jobs(jobs):
    inp = '\n'.join(json.dumps({k: j[k] for k in ('id', 'a', 'patch', 'strip', 'reverse', 'fuzz')}) for j in jobs) + '\n'
    out = rqh(['textapply'], stdin=inp)
    res = {}
    for line in out.splitlines():
        r = json.loads(line)
        res[r['id']] = r
    return res


def check(prop, tier):
    res = Result(prop, tier)
    work = scratch(prop)
    rnd = random.Random(seed())
    try:
        out = os.path.join(work, 'diff.tlc')
        st = tlc('MC_Diff', constants=PLAN[tier], cfg_body=CFG, out=out, tag='diff')
        res.add_tlc(st, 'MC_Diff')
        cases = list(enumerate(tlc_json_lines(out)))
        os.unlink(out)
        if not cases:
            raise ToolError('MC_Diff emitted nothing')
        names = list(render.dialects())
        total = bad = known = 0
        cli_pool = []
        counts = {}
        # in chunks, to bound memory
        CH = 1500
        for k in range(0, len(cases), CH):
            jobs = []
            for ci, case in cases[k:k + CH]:
                variant = seed() + ci
                js = jobs_for_case(ci, case, variant, names)
                for j in js:
                    j['id'] = len(jobs); jobs.append(j)
            if k == 0:
                # the pair (absent, empty) has no line difference: only the git dialect can express it
                for name, a, patch, allowed in (
                        ('git-empty-create', None, b'diff --git a/f.c b/f.c\nnew file mode 100644\nindex 0000000..e69de29\n', ['']),
                        ('git-empty-delete', '', b'diff --git a/f.c b/f.c\ndeleted file mode 100644\nindex e69de29..0000000\n', [None])):
                    for rev in (False,):
                        jobs.append({'id': len(jobs), 'ci': 0, 'c': 0, 'dialect': name, 'rev': rev, 'a': a, 'patch': patch.hex(), 'strip': 1, 'reverse': rev, 'fuzz': 0,
                                     'allowed': allowed, 'name': 'f.c', 'nh': 1, 'ambiguous': False, 'kind': 'M', 'a_abs': a is None, 'b_abs': allowed == [None]})
                gj = gnu_diff_jobs(cases, seed(), 600 if tier == 'quick' else 5000)
                for j in gj:
                    j['id'] = len(jobs); jobs.append(j)
            obs = run_jobs(jobs)
            for j in jobs:
                total += 1
                counts[j['dialect']] = counts.get(j['dialect'], 0) + 1
                why = judge(j, obs.get(j['id'], {'status': 'missing'}))
                if why is None:
                    if rnd.random() < (0.2 if (j['a'] is None or j['allowed'] == [None]) else 0.02) and not j['ambiguous']:
                        cli_pool.append(j)
                    continue
                case = cases[j['ci']][1]
                detail = {'A': case['A'], 'B': case['B'], 'context': j['c'], 'dialect': j['dialect'], 'reverse': j['rev'],
                          'patch': bytes.fromhex(j['patch']).decode('latin-1'), 'a_hex': j['a'], 'allowed_hex': j['allowed'],
                          'observed': obs.get(j['id']), 'why': why}
                o = obs.get(j['id'], {})
                refused_cleanly = (o.get('status') == 'ok' and len(o.get('reports', [])) == 1 and not o['reports'][0][0]
                                   and o.get('out') == j['a'])
                if j['dialect'] in ('git-empty-create', 'git-empty-delete') and o.get('status') == 'ok' and o.get('out') == j['a']:
                    res.violation(KF_EMPTY, 'a git-style creation/deletion of an EMPTY file (no hunks) is accepted but does nothing: ' + why,
                                  {'patch': bytes.fromhex(j['patch']).decode('latin-1'), 'observed': o})
                elif j['ambiguous'] and j['c'] == 0 and refused_cleanly:
                    known += 1
                    res.violation(KF_TOP, 'context-free single hunk at the top of a non-empty file is taken for a creation/deletion: ' + why, detail)
                else:
                    bad += 1
                    res.violation('%s:%s' % (j['dialect'], why.split(':')[0]), 'diff A->B in dialect %s (context %d%s) does not yield the other side: %s'
                                  % (j['dialect'], j['c'], ', -R' if j['rev'] else '', why), detail)
        res.cov['parts']['in-process'] = {'cases': len(cases), 'renderings_applied': total, 'by_dialect': counts, 'known_top_of_file': known}
        res.cov['traces_validated_against_impl'] += total
        res.cov['evaluations'] += total
        res.cov['distinct_nontrivial'] += len(cases)
        c0 = cases[len(cases) // 2][1]
        res.sample({'A': c0['A'], 'B': c0['B'], 'hunks_context_1': c0['canon'][1] if len(c0['canon']) > 1 else c0['canon'][0]})
        # CLI sample
        rnd.shuffle(cli_pool)
        sample = cli_pool[:CLI_SAMPLE[tier]]
        with Pool(12) as pool:
            outs = pool.map(cli_case, [(j, t) for j in sample for t in (1, 2)], chunksize=8)
        nbad = 0
        for (j, t), why in zip([(j, t) for j in sample for t in (1, 2)], outs):
            if why:
                nbad += 1
                res.violation('cli:%s:%s' % (j['dialect'], why.split(':')[0]), 'push of diff A->B (dialect %s, context %d, threads %d%s): %s'
                              % (j['dialect'], j['c'], t, ', -R' if j['rev'] else '', why),
                              {'patch': bytes.fromhex(j['patch']).decode('latin-1'), 'a_hex': j['a'], 'allowed_hex': j['allowed'], 'series_opts': '-p%d%s' % (j['strip'], ' -R' if j['rev'] else '')})
        res.cov['parts']['cli'] = {'workspaces_pushed': len(outs), 'bad': nbad}
        res.cov['traces_validated_against_impl'] += len(outs)
        import p_cstr
        p_cstr.run_cli(res, work)
        ws.cleanup_all()
    finally:
        shutil.rmtree(work, ignore_errors=True)
    res.cov['exhaustive'] = True
    res.cov['rule'] = ('every edit script (Keep/Delete/Insert over 2 symbols plus no-final-newline variants) up to MaxOps ops / MaxChanges changes (TLC), '
                       'x context width 0..MaxCtx x 12 header dialects (incl. doubled separators in the stripped part) x both directions x absent/empty variants; one evaluation = one parse+apply by the real library; '
                       'GNU diff output for the same file pairs is replayed too; a 2% sample is pushed by the real binary with 1 and 2 threads')
    res.assumptions += ['render.py renders hunks in the unified format faithfully (second producer GNU diff cross-checks this)',
                        'absence of a side is only demanded where the dialect can state it (/dev/null, git)']
    return res
