"""C02, C03, C04 (file-patch level), C20: hunk placement, application, rollback, fuzz monotonicity.

Pipeline (DESIGN 2.4): TLC enumerates abstract cases and checks Alg within Ref on the model (design level);
every case is replayed into the real TextFilePatch::apply/rollback (B1); observations that differ from the
model's unique outcome, and all observations of a seeded random driver on larger inputs, are judged by TLC
against the property-level relations (B2, Val_Hunks)."""
import json, os
from vlib import *

INV_PLACE = """
INIT Init
NEXT Next
INVARIANT AlgIsRef
INVARIANT ContentIsRecon
INVARIANT RollbackIsId
INVARIANT FuzzMonotone
INVARIANT Emit
"""
VAL_CFG = """
INIT Init
NEXT Next
INVARIANT Emit
"""

# which harness tallies / TLC verdicts are violations of which property
OWN = {
    'C02': {'tally': ['offset_mismatch'], 'verdict': ['c02']},
    'C03': {'tally': ['state_mismatch'], 'verdict': ['c03']},
    'C04': {'tally': ['rollback_panic', 'rollback_mismatch'], 'verdict': []},
    'C20': {'tally': ['fuzz_nonmonotone'], 'verdict': []},
}


def place_consts(sym='{"a","b"}', maxfile=3, maxctx=2, maxchg=1, maxlimit=2):
    return {'Sym': sym, 'MaxFile': maxfile, 'MaxCtx': maxctx, 'MaxChg': maxchg, 'MaxLimit': maxlimit, 'EmitCases': 'TRUE'}


def der_consts(sym='{"a","b"}', maxfile=4, maxctx=2, maxdel=1, maxins=1, maxerr=0, corrupt='FALSE', nhunks=2, maxlimit=1):
    return {'Sym': sym, 'MaxFile': maxfile, 'MaxCtx': maxctx, 'MaxDel': maxdel, 'MaxIns': maxins, 'MaxErr': maxerr,
            'Corrupt': corrupt, 'NHunks': nhunks, 'MaxLimit': maxlimit, 'Other': '"z"', 'EmitCases': '"last"'}


def validate_records(res, prop, recfile, tag, nrec):
    """B2: TLC judges observation records against the property-level relations."""
    if nrec == 0:
        return {}
    st = tlc('Val_Hunks', cfg_body=VAL_CFG, env={'RQ_RECORDS': recfile}, tag='val-' + tag, workers=8)
    res.add_tlc(st, 'Val_Hunks/' + tag)
    recs = {}
    with open(recfile) as f:
        for line in f:
            r = json.loads(line)
            recs[r['id']] = r
    counts = {'judged': 0}
    for v in tlc_json_lines(st['out']):
        counts['judged'] += 1
        for key in OWN[prop]['verdict']:
            if not v[key]:
                r = recs.get(v['id'], {})
                what = {'c02': 'hunk report breaks the placement rules (nearest match / anchoring / lowest fuzz)',
                        'c03': 'patched content is not the reconstruction from the hunk reports' +
                               (' (apply aborted)' if r.get('out') == ['PANIC'] else '')}[key]
                res.violation(key + ':' + r.get('why', ''), what, r)
    if counts['judged'] != nrec:
        raise ToolError('Val_Hunks judged %d of %d records' % (counts['judged'], nrec))
    res.cov['traces_validated_against_impl'] += nrec
    return counts


def run_model(res, prop, module, consts, tag, work):
    out = os.path.join(work, tag + '.tlc')
    st = tlc(module, constants=consts, cfg_body=INV_PLACE, out=out, tag=tag)
    res.add_tlc(st, tag)
    mis = os.path.join(work, tag + '.mis.ndjson')
    rep = json.loads(rqh(['hunks', out, seed(), mis]))
    c = rep['counts']
    res.cov['parts'][tag].update({'cases': c.get('cases', 0), 'runs_replayed': c.get('runs', 0),
                                  'agree_with_model': c.get('agrees_with_spec', 0),
                                  'diverge_from_model': c.get('diverges_from_alg', 0)})
    if c.get('cases', 0) == 0 or c.get('cases', 0) > st['distinct']:
        raise ToolError('%s: emitted %s cases for %d states' % (tag, c.get('cases'), st['distinct']))
    res.cov['traces_validated_against_impl'] += c.get('runs', 0)
    res.cov['evaluations'] += c.get('runs', 0)
    res.cov['distinct_nontrivial'] += c.get('cases', 0)
    for s in rep.get('first_cases', [])[:1]:
        res.sample({'from': tag, 'F': s['F'], 'hs': s['hs'], 'spec_verdicts': s['runs'][0][:2]})
    for key in OWN[prop]['tally']:
        for s in rep['samples'].get(key, []):
            res.violation(key, s.get('what', key), s)
        extra = c.get(key, 0) - len(rep['samples'].get(key, []))
        if extra > 0:
            res.diagnostics.append('%s: %d further %s cases not listed' % (tag, extra, key))
    if c.get('diverges_from_alg', 0):
        res.diagnostics.append('%s: %d observations diverge from the algorithm model (judged by TLC against the relation)'
                               % (tag, c['diverges_from_alg']))
    validate_records(res, prop, mis, tag, rep['mismatch_records'])
    os.unlink(out)
    return c


def run_random(res, prop, count, work):
    recs = os.path.join(work, 'random.ndjson')
    rep = json.loads(rqh(['hunks-random', seed(), count, recs]))
    c = rep['counts']
    res.cov['parts']['random'] = c
    res.cov['evaluations'] += c.get('runs', 0)
    for key in OWN[prop]['tally'] + (['apply_panic'] if prop == 'C03' else []):
        for s in rep['samples'].get(key, []):
            res.violation(key, s.get('what', key), s)
    if OWN[prop]['verdict']:
        validate_records(res, prop, recs, 'random', rep['records'])
    else:
        res.cov['traces_validated_against_impl'] += rep['records']
    with open(recs) as f:
        first = json.loads(f.readline())
    res.sample({'from': 'random driver', 'record': first})
    return c


PLAN = {
    # property -> tier -> list of (module, tag, constants)
    'C02': {
        'quick': [('MC_Place', 'blind-1hunk', place_consts()),
                  ('MC_Der', 'derived-2hunk-err-corrupt', der_consts(maxfile=3, maxerr=1, corrupt='TRUE', maxlimit=2))],
        'thorough': [('MC_Place', 'blind-1hunk', place_consts(maxfile=4, maxlimit=3)),
                     ('MC_Place', 'blind-1hunk-abc', place_consts(sym='{"a","b","c"}', maxfile=3, maxctx=1)),
                     ('MC_Der', 'derived-2hunk-err-corrupt', der_consts(maxfile=4, maxerr=1, corrupt='TRUE', maxlimit=2)),
                     ('MC_Der', 'derived-3hunk', der_consts(maxfile=4, maxctx=1, nhunks=3, maxlimit=1))],
    },
    'C03': {
        'quick': [('MC_Der', 'derived-2hunk', der_consts()),
                  ('MC_Der', 'derived-3hunk', der_consts(maxfile=3, maxctx=1, nhunks=3))],
        'thorough': [('MC_Der', 'derived-2hunk', der_consts(maxfile=5)),
                     ('MC_Der', 'derived-2hunk-del2', der_consts(maxfile=4, maxdel=2, maxerr=1)),
                     ('MC_Der', 'derived-3hunk', der_consts(maxfile=4, maxctx=1, nhunks=3))],
    },
    'C04': {
        'quick': [('MC_Der', 'derived-2hunk-del2', der_consts(maxfile=4, maxctx=1, maxdel=2, maxlimit=1)),
                  ('MC_Place', 'blind-1hunk-small', place_consts(maxfile=2, maxlimit=1))],
        'thorough': [('MC_Der', 'derived-2hunk', der_consts(maxfile=5)),
                     ('MC_Der', 'derived-3hunk', der_consts(maxfile=4, maxctx=1, nhunks=3)),
                     ('MC_Place', 'blind-1hunk', place_consts(maxfile=4, maxlimit=2))],
    },
    'C20': {
        'quick': [('MC_Place', 'blind-1hunk-lim3', place_consts(maxfile=3, maxctx=2, maxlimit=3)),
                  ('MC_Der', 'derived-2hunk-corrupt-lim3', der_consts(maxfile=3, corrupt='TRUE', maxlimit=3))],
        'thorough': [('MC_Place', 'blind-1hunk-ctx3', place_consts(maxfile=4, maxctx=3, maxlimit=3)),
                     ('MC_Der', 'derived-2hunk-corrupt-lim3', der_consts(maxfile=4, corrupt='TRUE', maxlimit=3)),
                     ('MC_Der', 'derived-3hunk-corrupt', der_consts(maxfile=3, maxctx=1, corrupt='TRUE', nhunks=3, maxlimit=2))],
    },
}
RANDOM = {'quick': 1500, 'thorough': 20000}

KINDS_CFG = """
INIT Init
NEXT Next
INVARIANT RollbackIsId
INVARIANT Emit
"""
KINDS = {
    'quick': [('kinds-depth1', {'Sym': '{"a","b"}', 'MaxFile': 2, 'MaxCtx': 1, 'Depth': 1, 'Small': 'FALSE', 'EmitCases': 'TRUE'}),
              ('kinds-depth2', {'Sym': '{"a"}', 'MaxFile': 2, 'MaxCtx': 1, 'Depth': 2, 'Small': 'TRUE', 'EmitCases': 'TRUE'})],
    'thorough': [('kinds-depth1', {'Sym': '{"a","b"}', 'MaxFile': 3, 'MaxCtx': 1, 'Depth': 1, 'Small': 'FALSE', 'EmitCases': 'TRUE'}),
                 ('kinds-depth2', {'Sym': '{"a","b"}', 'MaxFile': 2, 'MaxCtx': 0, 'Depth': 2, 'Small': 'TRUE', 'EmitCases': 'TRUE'}),
                 ('kinds-depth3', {'Sym': '{"a"}', 'MaxFile': 1, 'MaxCtx': 1, 'Depth': 3, 'Small': 'TRUE', 'EmitCases': 'TRUE'})],
}


def run_kinds(res, tag, consts, work):
    """C04: stacks of modify/create/delete/mode-change applications, LIFO rollback = identity."""
    out = os.path.join(work, tag + '.tlc')
    st = tlc('MC_Kinds', constants=consts, cfg_body=KINDS_CFG, out=out, tag=tag)
    res.add_tlc(st, tag)
    rep = json.loads(rqh(['stack', out, seed()]))
    c = rep['counts']
    res.cov['parts'][tag].update(c)
    if c.get('cases', 0) == 0:
        raise ToolError(tag + ': no cases emitted')
    res.cov['traces_validated_against_impl'] += c.get('cases', 0)
    res.cov['evaluations'] += c.get('cases', 0)
    res.cov['distinct_nontrivial'] += c.get('cases', 0)
    for s in rep.get('first_cases', [])[:1]:
        res.sample({'from': tag, 'case': s})
    for key in ('rollback_panic', 'rollback_mismatch', 'apply_panic'):
        for s in rep['samples'].get(key, []):
            res.violation(key, s.get('what', key), s)
    if c.get('diverges_from_alg', 0):
        res.diagnostics.append('%s: %d stacks diverge from the algorithm model after apply (not a violation by itself)' % (tag, c['diverges_from_alg']))
    os.unlink(out)


def check(prop, tier):
    res = Result(prop, tier)
    work = scratch(prop)
    try:
        for module, tag, consts in PLAN[prop][tier]:
            run_model(res, prop, module, consts, tag, work)
        run_random(res, prop, RANDOM[tier], work)
        if prop == 'C04':
            for tag, consts in KINDS[tier]:
                run_kinds(res, tag, consts, work)
    finally:
        shutil.rmtree(work, ignore_errors=True)
    res.cov['exhaustive'] = True
    res.cov['rule'] = ('TLC enumerates every (file, hunks) pair within the constants listed under parts (files over a 2-3 symbol '
                       'alphabet, all hunk shapes / all hunks cut from the file), each x direction x fuzz limit is one replayed run; '
                       'a case is non-trivial when it has at least one changed line (all are); distinct = distinct TLC states; '
                       'the random driver adds seeded larger cases judged by TLC (Val_Hunks)')
    res.assumptions += ['TLC, CommunityModules Json/IOUtils', 'harness maps abstract line symbols to byte strings injectively',
                        'bounds: see coverage.parts']
    return res
