"""C02, C03, C04 (file-patch level), C20: hunk placement, application, rollback, fuzz monotonicity.

Pipeline (DESIGN 2.4): TLC enumerates abstract cases and checks Alg within Ref on the model (design level);
every case is replayed into the real TextFilePatch::apply/rollback (B1); observations that differ from the
model's unique outcome, and all observations of a seeded random driver on larger inputs, are judged by TLC
against the property-level relations (B2, Val_Hunks)."""
import json, os, re
from vlib import *

INV_PLACE = """
INIT Init
NEXT Next
INVARIANT AlgIsRef
INVARIANT ContentIsRecon
INVARIANT RollbackIsId
INVARIANT FuzzMonotone
INVARIANT Emit
"""
INV_PLACE_TRIM = INV_PLACE + "INVARIANT TrimAgrees\n"
VAL_CFG = """
INIT Init
NEXT Next
INVARIANT Emit
"""

# which harness tallies / TLC verdicts are violations of which property
OWN = {
    'C02': {'tally': ['offset_mismatch'], 'verdict': ['c02']},
    'C03': {'tally': ['state_mismatch', 'report_inconsistent'], 'verdict': ['c03']},
    'C04': {'tally': ['rollback_panic', 'rollback_mismatch'], 'verdict': []},
    'C20': {'tally': ['fuzz_nonmonotone', 'report_inconsistent'], 'verdict': []},
}


def run_tlaps(res):
    """Unbounded lemmas about the fuzz trimming arithmetic (TrimLemma.tla), proved by TLAPS; MC_Place's invariant
    TrimAgrees ties the same arithmetic to View.  A failure to prove is a tool problem, never a violation."""
    import subprocess, tempfile
    d = tempfile.mkdtemp(prefix='rqverif.tlaps.', dir=SHM)
    try:
        shutil.copy(os.path.join(SPEC, 'TrimLemma.tla'), d)
        p = subprocess.run(['timeout', '300', 'tlapm', '--threads', '4', 'TrimLemma.tla'], cwd=d, stdout=subprocess.PIPE, stderr=subprocess.STDOUT, text=True)
        m = re.search(r'All (\d+) obligations? proved', p.stdout)
        if m:
            res.cov['parts']['tlaps/TrimLemma'] = {'obligations': int(m.group(1)), 'discharged': int(m.group(1)),
                                                   'theorems': ['NeverAChangedLine', 'AtMostFuzz', 'Monotone', 'MaxUsable', 'BeyondMaxUsableNothingChanges', 'LongerContextTrimmedFirst']}
        else:
            res.diagnostics.append('tlapm did not prove TrimLemma: ' + p.stdout[-300:])
    finally:
        shutil.rmtree(d, ignore_errors=True)


def place_consts(sym='{"a","b"}', maxfile=3, maxctx=2, maxchg=1, maxlimit=2):
    return {'Sym': sym, 'MaxFile': maxfile, 'MaxCtx': maxctx, 'MaxChg': maxchg, 'MaxLimit': maxlimit, 'EmitCases': 'TRUE'}


def der_consts(sym='{"a","b"}', maxfile=4, maxctx=2, maxdel=1, maxins=1, maxerr=0, corrupt='FALSE', nhunks=2, maxlimit=1):
    return {'Sym': sym, 'MaxFile': maxfile, 'MaxCtx': maxctx, 'MaxDel': maxdel, 'MaxIns': maxins, 'MaxErr': maxerr,
            'Corrupt': corrupt, 'NHunks': nhunks, 'MaxLimit': maxlimit, 'Other': '"z"', 'EmitCases': '"last"'}


def validate_records(res, prop, recfile, tag, nrec):
    """B2: TLC judges observation records against the property-level relations."""
    if nrec == 0:
        return {}
    # in chunks: a chunk finishes well inside the TLC time limit also on a loaded machine
    CH = 40000
    recs, chunk_files = {}, []
    with open(recfile) as f:
        lines = f.readlines()
    for r in map(json.loads, lines):
        recs[r['id']] = r
    counts = {'judged': 0}
    for c0 in range(0, len(lines), CH):
        cf = recfile + '.%d' % c0
        with open(cf, 'w') as f:
            f.writelines(lines[c0:c0 + CH])
        st = tlc('Val_Hunks', cfg_body=VAL_CFG, env={'RQ_RECORDS': cf}, tag='val-' + tag, workers=8, timeout=2400)
        if c0 == 0:
            res.add_tlc(st, 'Val_Hunks/' + tag)
        else:
            res.cov['states'] += st['distinct']; res.cov['transitions'] += st['states']
            for k in ('states', 'distinct', 'wall_s'):
                res.cov['parts']['Val_Hunks/' + tag][k] = round(res.cov['parts']['Val_Hunks/' + tag][k] + st[k], 1)
        for v in tlc_json_lines(st['out']):
            counts['judged'] += 1
            for key in OWN[prop]['verdict']:
                if not v[key]:
                    r = recs.get(v['id'], {})
                    what = {'c02': 'hunk report breaks the placement rules (nearest match / anchoring / lowest fuzz)',
                            'c03': 'patched content is not the reconstruction from the hunk reports' +
                                   (' (apply aborted)' if r.get('out') == ['PANIC'] else '')}[key]
                    res.violation(key + ':' + r.get('why', ''), what, r)
        os.unlink(cf)
    if counts['judged'] != nrec:
        raise ToolError('Val_Hunks judged %d of %d records' % (counts['judged'], nrec))
    res.cov['traces_validated_against_impl'] += nrec
    return counts


def run_model(res, prop, module, consts, tag, work):
    out = os.path.join(work, tag + '.tlc')
    st = tlc(module, constants=consts, cfg_body=INV_PLACE_TRIM if module == 'MC_Place' else INV_PLACE, out=out, tag=tag)
    res.add_tlc(st, tag)
    mis = os.path.join(work, tag + '.mis.ndjson')
    rep = json.loads(rqh(['hunks', out, seed(), mis]))
    c = rep['counts']
    res.cov['parts'][tag].update({'cases': c.get('cases', 0), 'runs_replayed': c.get('runs', 0),
                                  'agree_with_model': c.get('agrees_with_spec', 0),
                                  'diverge_from_model': c.get('diverges_from_alg', 0)})
    if c.get('cases', 0) == 0 or c.get('cases', 0) > st['distinct']:
        raise ToolError('%s: emitted %s cases for %d states' % (tag, c.get('cases'), st['distinct']))
    res.cov['traces_validated_against_impl'] += c.get('runs', 0)
    res.cov['evaluations'] += c.get('runs', 0)
    res.cov['distinct_nontrivial'] += c.get('cases', 0)
    for s in rep.get('first_cases', [])[:1]:
        res.sample({'from': tag, 'F': s['F'], 'hs': s['hs'], 'spec_verdicts': s['runs'][0][:2]})
    for key in OWN[prop]['tally']:
        for s in rep['samples'].get(key, []):
            res.violation(key, s.get('what', key), s)
        extra = c.get(key, 0) - len(rep['samples'].get(key, []))
        if extra > 0:
            res.diagnostics.append('%s: %d further %s cases not listed' % (tag, extra, key))
    if c.get('diverges_from_alg', 0):
        res.diagnostics.append('%s: %d observations diverge from the algorithm model (judged by TLC against the relation)'
                               % (tag, c['diverges_from_alg']))
    validate_records(res, prop, mis, tag, rep['mismatch_records'])
    os.unlink(out)
    return c


def run_random(res, prop, count, work):
    recs = os.path.join(work, 'random.ndjson')
    rep = json.loads(rqh(['hunks-random', seed(), count, recs]))
    c = rep['counts']
    res.cov['parts']['random'] = c
    res.cov['evaluations'] += c.get('runs', 0)
    for key in OWN[prop]['tally'] + (['apply_panic'] if prop == 'C03' else []):
        for s in rep['samples'].get(key, []):
            res.violation(key, s.get('what', key), s)
    if OWN[prop]['verdict']:
        validate_records(res, prop, recs, 'random', rep['records'])
    else:
        res.cov['traces_validated_against_impl'] += rep['records']
    with open(recs) as f:
        first = json.loads(f.readline())
    res.sample({'from': 'random driver', 'record': first})
    return c


DIFF_CFG = """
INIT Init
NEXT Next
INVARIANT Emit
"""


def run_textfuzz(res, prop, tier, work):
    """Text-level path with fuzz: hunks that diff derives (so their cores may contain interior context lines) are
    rendered as patch text, the file is perturbed in an outer context line (or shifted), and the real parser + apply
    run at fuzz limits 0..2; every observation is judged by TLC (Val_Hunks) against the C02 relation and C03's
    Reconstruct.  This binds the parser's prefix/suffix context counting to the placement rules."""
    import render, random
    rnd = random.Random(seed())
    out = os.path.join(work, 'diff.tlc')
    consts = {'Sym': '{"a","b"}', 'MaxOps': 5 if tier == 'quick' else 6, 'MaxChanges': 3, 'MaxCtx': 2, 'EmitCases': 'TRUE', 'WithNoEol': 'FALSE'}
    st = tlc('MC_Diff', constants=consts, cfg_body=DIFF_CFG, out=out, tag='textfuzz')
    res.add_tlc(st, 'textfuzz/MC_Diff')
    cases = list(tlc_json_lines(out))
    os.unlink(out)
    jobs, recs = [], []
    for ci, case in enumerate(cases):
        for c in (0, 1, 2):
            hs = case['canon'][c]
            if not hs:
                continue
            if len(hs) == 1 and not hs[0]['pre'] and not hs[0]['post'] and (not hs[0]['del'] or not hs[0]['ins']):
                continue            # a creation / deletion (or the context-free top-of-file shape), not a Modify patch
            plain = [{'pre': h['pre'], 'del': h['del'], 'ins': h['ins'], 'post': h['post'], 'os': h['os'], 'ns': h['ns']} for h in hs]
            body0 = b''.join(render.hunk_text(h, 0) for h in hs)
            # the reverse direction (the series entry says -R): onto B as it is and onto B shifted by one line; placement
            # then goes by the new side's line numbers, also for hunks with an empty side (context 0)
            for F in (list(case['B']), ['a'] + list(case['B'])):
                for lim in ((0, 2) if c else (0,)):
                    jobs.append({'id': len(jobs), 'a': render.file_bytes(F, 0).hex(), 'patch': (b'--- a/f\n+++ b/f\n' + body0).hex(), 'strip': 1, 'reverse': True, 'fuzz': lim})
                    recs.append({'F': F, 'hs': plain, 'lim': lim, 'dir': 'R'})
            if c == 0:
                continue
            # perturbations of A: corrupt one outer context line of one hunk / prepend a line / both
            A = list(case['A'])
            variants = []
            for hi, h in enumerate(hs):
                if h['pre']:
                    B = list(A); B[h['os']] = 'z'; variants.append(B)
                if h['post']:
                    B = list(A); B[h['os'] + len(h['pre']) + len(h['del']) + len(h['post']) - 1] = 'z'; variants.append(B)
            variants.append(['a'] + A)
            if A:
                # the file lost its final newline: its last line is another line than the one the hunks show
                variants.insert(0, A[:-1] + [A[-1] + '~'])
            if variants and len(variants) > 1:
                variants.append(['b'] + variants[0])
            body = b''.join(render.hunk_text(h, 0) for h in hs)
            patch = b'--- a/f\n+++ b/f\n' + body
            for F in variants[:5]:
                for lim in (0, 1, 2):
                    jobs.append({'id': len(jobs), 'a': render.file_bytes(F, 0).hex(), 'patch': patch.hex(), 'strip': 1, 'reverse': False, 'fuzz': lim})
                    recs.append({'F': F, 'hs': plain, 'lim': lim})
    cap = 60000 if tier == 'quick' else 600000
    if len(jobs) > cap:
        keep = sorted(rnd.sample(range(len(jobs)), cap))
        jobs = [dict(jobs[i], id=k) for k, i in enumerate(keep)]; recs = [recs[i] for i in keep]
    inp = '\n'.join(json.dumps(j) for j in jobs) + '\n'
    obs = {}
    for line in rqh(['textapply'], stdin=inp).splitlines():
        r = json.loads(line); obs[r['id']] = r
    recfile = os.path.join(work, 'textfuzz.ndjson')
    n = 0
    with open(recfile, 'w') as f:
        for j, rec in zip(jobs, recs):
            o = obs.get(j['id'], {'status': 'missing'})
            if o.get('status') == 'panic':
                outl, rep = ['PANIC'], []
            elif o.get('status') != 'ok':
                res.violation('textfuzz-parse', 'a rendered diff is not parsed: %s' % o.get('status'), {'patch': bytes.fromhex(j['patch']).decode('latin-1')}) if prop == 'C03' else None
                continue
            else:
                data = bytes.fromhex(o['out']) if o['out'] is not None else b''
                parts = data.split(b'\n')
                outl = [l.decode('latin-1') for l in parts[:-1]] + ([parts[-1].decode('latin-1') + '~'] if parts[-1] else [])
                rep = [{'ok': r[0], 'line': r[1], 'fuzz': r[3]} for r in o['reports']]
                if len(rep) != len(rec['hs']):
                    continue
            n += 1
            f.write(json.dumps({'id': n, 'F': rec['F'], 'hs': rec['hs'], 'dir': rec.get('dir', 'F'), 'lim': rec['lim'], 'rep': rep, 'out': outl, 'why': 'text-level fuzz'}) + '\n')
    res.cov['parts']['textfuzz'] = {'diff_cases': len(cases), 'observations': n}
    res.cov['evaluations'] += n
    if OWN[prop]['verdict']:
        validate_records(res, prop, recfile, 'textfuzz', n)
    return n


def fuzz_cli_job(job):
    import ws, scen
    sc, level, threads = job
    snaps = []
    for F in (0, 1, 2, 3, 18446744073709551615):
        w = ws.mkws('fz')
        try:
            scen.materialise(w, sc['tree0'], sc['series'], [('-R' if pt.get('rev') else '') for pt in sc['series']])
            # perturb the outermost context lines of every cell block: hunks on them need fuzz `level`
            for p, f in sc['tree0'].items():
                if f['ex'] and f['cells']:
                    data = open(os.path.join(w, p), 'rb').read()
                    for k in range(1, len(f['cells']) + 1):
                        data = data.replace(b'ctx %d.1\n' % k, b'ctx %d.1 moved\n' % k).replace(b'ctx %d.6\n' % k, b'ctx %d.6 moved\n' % k)
                        if level >= 2:
                            data = data.replace(b'ctx %d.2\n' % k, b'ctx %d.2 moved\n' % k)
                    open(os.path.join(w, p), 'wb').write(data)
            rc, so, se = ws.push(w, ['-a', '-q', '--threads', threads, '--backup', 'always', '--fuzz', F])
            snaps.append((F, rc, ws.snapshot(w), se[-200:]))
        finally:
            ws.rmws(w)
    probs = []
    for F, rc, snap, se in snaps:
        if ws.crashed(rc):
            probs.append(('fuzz-cli-crash', '--fuzz %d: exit status %s: %s' % (F, rc, se)))
    for a in snaps:
        for b in snaps:
            if a[0] < b[0] and a[1] == 0 and (b[1] != 0 or b[2] != a[2]):
                diff = sorted(p for p in set(a[2]) | set(b[2]) if a[2].get(p) != b[2].get(p))
                probs.append(('fuzz-cli-nonmonotone', 'the series applies completely with --fuzz %d but --fuzz %d gives exit %d / differs in %s' % (a[0], b[0], b[1], diff)))
    return probs, [s_[1] for s_ in snaps]


def run_fuzz_cli(res, tier, work):
    """C20 at the level of the tool: scenarios whose files have perturbed outer context lines, pushed with --fuzz 0..3."""
    import p_tool, random
    from multiprocessing import Pool
    rnd = random.Random(seed())
    out, st = p_tool.enumerate_scenarios(res, 'fuzz-cli-scenarios', 'TreesSmall', 'TRUE', 2, 'Cfgs_one', work, 'TRUE')
    lines = [l for l in open(out, errors='replace') if l.startswith('"{') and '\\"exit\\":0' in l]
    os.unlink(out)
    pick = rnd.sample(lines, min(len(lines), 400 if tier == 'quick' else 5000))
    jobs = []
    for li, line in enumerate(pick):
        sc = json.loads(json.loads(line))
        if sc['outs'][0]['out']['adversarial']:
            continue
        jobs.append((sc, 1 + li % 2, 1 + li % 3))
    with Pool(12) as pool:
        outs = pool.map(fuzz_cli_job, jobs, chunksize=4)
    succ = {0: 0, 1: 0, 2: 0, 3: 0, 4: 0}
    for (sc, level, threads), (probs, rcs) in zip(jobs, outs):
        for F, rc in enumerate(rcs):
            if rc == 0:
                succ[F] += 1
        for cat, msg in probs:
            res.violation(cat, msg + ' (context perturbed to need fuzz %d, threads %d)' % (level, threads), {'tree0': sc['tree0'], 'series': sc['series'], 'perturbation_level': level, 'threads': threads})
    res.cov['parts']['fuzz-cli-scenarios'].update({'workspaces': len(jobs), 'runs': len(jobs) * 5, 'limits': [0, 1, 2, 3, 'usize::MAX'], 'complete_pushes_by_fuzz_limit': succ})
    res.cov['traces_validated_against_impl'] += len(jobs) * 4
    res.cov['evaluations'] += len(jobs) * 4
    import ws
    ws.cleanup_all()


PLAN = {
    # property -> tier -> list of (module, tag, constants)
    'C02': {
        'quick': [('MC_Place', 'blind-1hunk', place_consts()),
                  ('MC_Der', 'derived-2hunk-err-corrupt', der_consts(maxfile=3, maxctx=1, maxerr=1, corrupt='TRUE', maxlimit=2))],
        'thorough': [('MC_Place', 'blind-1hunk', place_consts(maxfile=4, maxlimit=3)),
                     ('MC_Place', 'blind-1hunk-abc', place_consts(sym='{"a","b","c"}', maxfile=3, maxctx=1)),
                     ('MC_Der', 'derived-2hunk-err-corrupt', der_consts(maxfile=4, maxerr=1, corrupt='TRUE', maxlimit=2)),
                     ('MC_Der', 'derived-3hunk', der_consts(maxfile=4, maxctx=1, nhunks=3, maxlimit=1))],
    },
    'C03': {
        'quick': [('MC_Der', 'derived-2hunk', der_consts()),
                  ('MC_Der', 'derived-3hunk', der_consts(maxfile=3, maxctx=1, maxins=0, nhunks=3))],
        'thorough': [('MC_Der', 'derived-2hunk', der_consts(maxfile=5)),
                     ('MC_Der', 'derived-2hunk-del2', der_consts(maxfile=4, maxdel=2, maxerr=1)),
                     ('MC_Der', 'derived-3hunk', der_consts(maxfile=4, maxctx=1, nhunks=3))],
    },
    'C04': {
        'quick': [('MC_Der', 'derived-2hunk-del2', der_consts(maxfile=4, maxctx=1, maxdel=2, maxlimit=1)),
                  ('MC_Place', 'blind-1hunk-small', place_consts(maxfile=2, maxlimit=1))],
        'thorough': [('MC_Der', 'derived-2hunk', der_consts(maxfile=5)),
                     ('MC_Der', 'derived-3hunk', der_consts(maxfile=4, maxctx=1, nhunks=3)),
                     ('MC_Place', 'blind-1hunk', place_consts(maxfile=4, maxlimit=2))],
    },
    'C20': {
        'quick': [('MC_Place', 'blind-1hunk-lim3', place_consts(maxfile=3, maxctx=2, maxlimit=3)),
                  ('MC_Der', 'derived-2hunk-corrupt-lim3', der_consts(maxfile=3, corrupt='TRUE', maxlimit=3))],
        'thorough': [('MC_Place', 'blind-1hunk-ctx3', place_consts(maxfile=4, maxctx=3, maxlimit=3)),
                     ('MC_Der', 'derived-2hunk-corrupt-lim3', der_consts(maxfile=4, corrupt='TRUE', maxlimit=3)),
                     ('MC_Der', 'derived-3hunk-corrupt', der_consts(maxfile=3, maxctx=1, corrupt='TRUE', nhunks=3, maxlimit=2))],
    },
}
RANDOM = {'quick': 1500, 'thorough': 20000}

KINDS_CFG = """
INIT Init
NEXT Next
INVARIANT RollbackIsId
INVARIANT Emit
"""
KINDS = {
    'quick': [('kinds-depth1', {'Sym': '{"a","b"}', 'MaxFile': 2, 'MaxCtx': 1, 'Depth': 1, 'Small': 'FALSE', 'EmitCases': 'TRUE'}),
              ('kinds-depth2', {'Sym': '{"a"}', 'MaxFile': 2, 'MaxCtx': 1, 'Depth': 2, 'Small': 'TRUE', 'EmitCases': 'TRUE'})],
    'thorough': [('kinds-depth1', {'Sym': '{"a","b"}', 'MaxFile': 3, 'MaxCtx': 1, 'Depth': 1, 'Small': 'FALSE', 'EmitCases': 'TRUE'}),
                 ('kinds-depth2', {'Sym': '{"a","b"}', 'MaxFile': 2, 'MaxCtx': 0, 'Depth': 2, 'Small': 'TRUE', 'EmitCases': 'TRUE'}),
                 ('kinds-depth3', {'Sym': '{"a"}', 'MaxFile': 1, 'MaxCtx': 0, 'Depth': 3, 'Small': 'TRUE', 'EmitCases': 'TRUE'})],
}


def run_kinds(res, tag, consts, work):
    """C04: stacks of modify/create/delete/mode-change applications, LIFO rollback = identity."""
    out = os.path.join(work, tag + '.tlc')
    st = tlc('MC_Kinds', constants=consts, cfg_body=KINDS_CFG, out=out, tag=tag)
    res.add_tlc(st, tag)
    rep = json.loads(rqh(['stack', out, seed()]))
    c = rep['counts']
    res.cov['parts'][tag].update(c)
    if c.get('cases', 0) == 0:
        raise ToolError(tag + ': no cases emitted')
    res.cov['traces_validated_against_impl'] += c.get('cases', 0)
    res.cov['evaluations'] += c.get('cases', 0)
    res.cov['distinct_nontrivial'] += c.get('cases', 0)
    for s in rep.get('first_cases', [])[:1]:
        res.sample({'from': tag, 'case': s})
    for key in ('rollback_panic', 'rollback_mismatch', 'apply_panic'):
        for s in rep['samples'].get(key, []):
            res.violation(key, s.get('what', key), s)
    if c.get('diverges_from_alg', 0):
        res.diagnostics.append('%s: %d stacks diverge from the algorithm model after apply (not a violation by itself)' % (tag, c['diverges_from_alg']))
    os.unlink(out)


def run_tool_rollback(res, tier, work):
    """C04 at the level of the tool: in every scenario whose push is refused at some patch, the driver undoes the
    file patches of that patch (rename undo records, permissions, existence live in apply/common.rs, not in the
    library): the tree left behind must be the reference tree, i.e. the state before the refused patch."""
    import p_tool, ws, random
    from multiprocessing import Pool
    rnd = random.Random(seed())
    out, st = p_tool.enumerate_scenarios(res, 'tool-rollback', 'TreesSmall' if tier == 'quick' else 'TreesAll', 'TRUE', 2, 'Cfgs_one', work, 'TRUE')
    lines = [l for l in open(out, errors='replace') if l.startswith('"{') and '\\"exit\\":1' in l]
    os.unlink(out)
    pick = rnd.sample(lines, min(len(lines), 1500 if tier == 'quick' else 20000))
    jobs = []
    for li, line in enumerate(pick):
        sc = json.loads(json.loads(line))
        o = sc['outs'][0]
        if o['out']['adversarial'] or o['out']['exit'] != 1:
            continue
        cfg = dict(o['cfg'], names=1) if li % 4 == 1 else o['cfg']
        jobs.append((sc, cfg, o['out'], 1 + li % 3, None))
    with Pool(12) as pool:
        outs = pool.map(p_tool.run_one, jobs, chunksize=16)
    bad = 0
    for (sc, cfg, o, threads, _), (probs, rc, se) in zip(jobs, outs):
        for cat, msg in probs:
            if cat in ('crash', 'tree'):
                bad += 1
                res.violation('tool-rollback', 'after a refused patch the tree is not the tree before that patch: %s (threads %d)' % (msg, threads),
                              {'tree0': sc['tree0'], 'series': sc['series'], 'cfg': cfg, 'threads': threads, 'reference': o,
                               'observed': {'exit': rc, 'stderr': se, 'problems': [list(x) for x in probs if x[0] != '_rej']}})
    res.cov['parts']['tool-rollback'].update({'runs_with_refused_patch': len(jobs), 'bad': bad})
    res.cov['traces_validated_against_impl'] += len(jobs)
    res.cov['evaluations'] += len(jobs)
    ws.cleanup_all()


def check(prop, tier):
    res = Result(prop, tier)
    work = scratch(prop)
    try:
        for module, tag, consts in PLAN[prop][tier]:
            run_model(res, prop, module, consts, tag, work)
        run_random(res, prop, RANDOM[tier], work)
        if prop in ('C02', 'C20'):
            run_tlaps(res)
        if prop in ('C02', 'C03'):
            run_textfuzz(res, prop, tier, work)
        if prop == 'C20':
            run_fuzz_cli(res, tier, work)
        if prop == 'C04':
            for tag, consts in KINDS[tier]:
                run_kinds(res, tag, consts, work)
            run_tool_rollback(res, tier, work)
    finally:
        shutil.rmtree(work, ignore_errors=True)
    res.cov['exhaustive'] = True
    res.cov['rule'] = ('TLC enumerates every (file, hunks) pair within the constants listed under parts (files over a 2-3 symbol '
                       'alphabet, all hunk shapes / all hunks cut from the file), each x direction x fuzz limit is one replayed run; '
                       'a case is non-trivial when it has at least one changed line (all are); distinct = distinct TLC states; '
                       'the random driver adds seeded larger cases judged by TLC (Val_Hunks)')
    res.assumptions += ['TLC, CommunityModules Json/IOUtils', 'harness maps abstract line symbols to byte strings injectively',
                        'bounds: see coverage.parts']
    return res
