"""Shared plumbing for the rapidquilt verification checks (stdlib only)."""
import fcntl, json, os, re, shutil, subprocess, sys, time, hashlib

VERIF = os.path.dirname(os.path.dirname(os.path.abspath(__file__)))
# VERIF_REPO: run the checks against another checkout (used only by tools/seedtest.py to try seeded changes in a
# scratch worktree without touching /repo).  Registered commands never set it.
REPO = os.environ.get('VERIF_REPO', '/repo')
ALT = REPO != '/repo'
BUILD = os.path.join(VERIF, 'build') if not ALT else os.path.join(VERIF, 'build', 'alt-' + hashlib.md5(REPO.encode()).hexdigest()[:8])
EVIDENCE = os.path.join(VERIF, 'evidence') if not ALT else os.path.join(BUILD, 'evidence')
HARNESS = os.path.join(VERIF, 'harness') if not ALT else os.path.join(BUILD, 'harness')
SPEC = os.path.join(VERIF, 'spec')
GUARD = 'opensuse_rapidquilt_verif'
RUSTFLAGS = '--cfg %s --check-cfg cfg(%s)' % (GUARD, GUARD)
BIN = os.path.join(BUILD, 'target-repo', 'debug', 'rapidquilt')
RQH = os.path.join(BUILD, 'target-harness', 'debug', 'rqh')
SHM = '/dev/shm' if os.path.isdir('/dev/shm') and os.access('/dev/shm', os.W_OK) else BUILD


class ToolError(Exception):
    pass


def log(*a):
    print('[check]', *a, file=sys.stderr, flush=True)


def seed():
    try:
        return int(os.environ.get('VERIF_SEED', '1'))
    except ValueError:
        return 1


def sweep_stale():
    """Remove scratch directories left on the tmpfs by runs whose process is gone (a killed run cannot clean up)."""
    try:
        for d in os.listdir(SHM):
            m = re.match(r'rqverif\.(?:tlc\.[^.]*\.|ws\.|strace\.)?(\d+)(?:\.|$)', d)
            if m and not os.path.exists('/proc/%s' % m.group(1)):
                p = os.path.join(SHM, d)
                shutil.rmtree(p, ignore_errors=True) if os.path.isdir(p) else os.unlink(p)
    except OSError:
        pass


def scratch(tag):
    """Fresh scratch directory (tmpfs when available); caller removes it."""
    d = os.path.join(SHM, 'rqverif.%d.%s' % (os.getpid(), tag))
    shutil.rmtree(d, ignore_errors=True)
    os.makedirs(d)
    return d


def _locked(name):
    os.makedirs(BUILD, exist_ok=True)
    f = open(os.path.join(BUILD, name), 'w')
    fcntl.flock(f, fcntl.LOCK_EX)
    return f


def build():
    """(Re)build /repo's binary with the hooks on and the harness against /repo's working tree."""
    sweep_stale()
    lock = _locked('.build.lock')
    try:
        if ALT:
            # private copy of the harness whose path dependency points at the alternate checkout
            src = os.path.join(VERIF, 'harness')
            for root, dirs, files in os.walk(src):
                dirs[:] = [d for d in dirs if d != 'target']
                for fn in files:
                    sp = os.path.join(root, fn)
                    dp = os.path.join(HARNESS, os.path.relpath(sp, src))
                    os.makedirs(os.path.dirname(dp), exist_ok=True)
                    data = open(sp).read().replace('"/repo', '"' + REPO).replace('../build/target-harness', os.path.join(BUILD, 'target-harness'))
                    if not os.path.exists(dp) or open(dp).read() != data:
                        open(dp, 'w').write(data)
        env = dict(os.environ, RUSTFLAGS=RUSTFLAGS, CARGO_NET_OFFLINE='true')
        t0 = time.time()
        for what, cmd, cwd in (
            ('rapidquilt (hooks on)', ['cargo', 'build', '--offline', '--quiet', '--bin', 'rapidquilt',
                                       '--target-dir', os.path.join(BUILD, 'target-repo')], REPO),
            ('harness', ['cargo', 'build', '--offline', '--quiet'], HARNESS),
        ):
            e = dict(env)
            if what == 'harness':
                e.pop('RUSTFLAGS')      # harness/.cargo/config.toml carries the flags
                lockfile = os.path.join(HARNESS, 'Cargo.lock')
                if not os.path.exists(lockfile):
                    shutil.copy(os.path.join(REPO, 'Cargo.lock'), lockfile)
            p = subprocess.run(cmd, cwd=cwd, env=e, stdout=subprocess.PIPE, stderr=subprocess.STDOUT, text=True)
            if p.returncode != 0:
                sys.stderr.write(p.stdout[-6000:])
                raise ToolError('build of %s failed' % what)
        log('build ok in %.1fs' % (time.time() - t0))
    finally:
        lock.close()


TLC_JAR = '/opt/veriftools/tla/tla2tools.jar'


def tlc(module, constants=None, cfg_body=None, out=None, workers=8, timeout=1500, env=None, tag=None,
        extra=(), heap='6g', simulate=None):
    """Run TLC on spec/<module>.tla.  The .cfg is generated: `cfg_body` (INIT/NEXT/INVARIANT lines) plus
    CONSTANTS from `constants` (dict name -> TLA+ text).  Output goes to `out`.  Returns a dict of stats.
    Raises ToolError on TLC errors (a violated invariant of the *model* is a tool error: the models are
    fixed and are checked to hold; code defects are found by conformance, not here)."""
    tag = tag or module
    work = os.path.join(BUILD, 'tlc', '%s.%d' % (tag, os.getpid()))
    shutil.rmtree(work, ignore_errors=True)
    os.makedirs(work)
    cfg = os.path.join(work, module + '.cfg')
    with open(cfg, 'w') as f:
        if constants:
            f.write('CONSTANTS\n')
            for k, v in constants.items():
                if isinstance(v, str) and v.startswith('<-'):
                    f.write('  %s %s\n' % (k, v))
                else:
                    f.write('  %s = %s\n' % (k, v))
        f.write(cfg_body.strip() + '\n')
        if 'CHECK_DEADLOCK' not in cfg_body:
            f.write('CHECK_DEADLOCK FALSE\n')
    out = out or os.path.join(work, 'tlc.out')
    meta = os.path.join(SHM, 'rqverif.tlc.%s.%d' % (tag, os.getpid()))
    shutil.rmtree(meta, ignore_errors=True)
    e = dict(os.environ)
    jtmp = os.path.join(work, 'jtmp')
    os.makedirs(jtmp)
    e['JAVA_TOOL_OPTIONS'] = '-Xss1g -Xmx%s -Djava.io.tmpdir=%s' % (heap, jtmp)
    if env:
        e.update(env)
    cmd = ['timeout', str(timeout), 'tlc', '-workers', str(workers), '-metadir', meta, '-cleanup',
           '-noGenerateSpecTE', '-config', cfg] + list(extra)
    if simulate:
        cmd += ['-simulate', simulate]
    cmd += [os.path.join(SPEC, module + '.tla')]
    t0 = time.time()
    with open(out, 'w') as fo:
        p = subprocess.run(cmd, cwd=SPEC, env=e, stdout=fo, stderr=subprocess.STDOUT)
    shutil.rmtree(meta, ignore_errors=True)
    wall = time.time() - t0
    stats = {'module': module, 'wall_s': round(wall, 1), 'out': out, 'states': 0, 'distinct': 0, 'rc': p.returncode}
    err = None
    with open(out, errors='replace') as f:
        for line in f:
            if line.startswith('"'):
                continue
            m = re.match(r'(\d+) states generated, (\d+) distinct states found', line)
            if m:
                stats['states'] = int(m.group(1)); stats['distinct'] = int(m.group(2))
            m = re.match(r'The depth of the complete state graph search is (\d+)', line)
            if m:
                stats['depth'] = int(m.group(1))
            if line.startswith('Error:') and err is None:
                err = line.strip()
            if 'is violated' in line and err is None:
                err = line.strip()
    if p.returncode == 124:
        raise ToolError('TLC timed out on %s after %ss' % (module, timeout))
    if err or p.returncode != 0:
        tail = subprocess.run(['grep', '-v', '^"', out], stdout=subprocess.PIPE, text=True).stdout[-3000:]
        sys.stderr.write(tail)
        raise ToolError('TLC failed on %s: %s (rc=%d)' % (module, err, p.returncode))
    return stats


def tlc_json_lines(path):
    """Yield the JSON values printed by PrintT(ToJson(..)) in a TLC output file."""
    with open(path, errors='replace') as f:
        for line in f:
            if line.startswith('"{') or line.startswith('"['):
                try:
                    yield json.loads(json.loads(line))
                except ValueError:
                    continue


def rqh(args, stdin=None, timeout=1800, env=None):
    e = dict(os.environ)
    if env:
        e.update(env)
    p = subprocess.run([RQH] + [str(a) for a in args], input=stdin, stdout=subprocess.PIPE, stderr=subprocess.PIPE,
                       text=True, timeout=timeout, env=e)
    if p.returncode != 0:
        sys.stderr.write(p.stderr[-3000:])
        raise ToolError('harness %s exited with %d' % (args[0], p.returncode))
    return p.stdout


# ---------------------------------------------------------------------------------------------
# results, known findings, evidence

class Result:
    """Accumulates what a check covered and what it found."""

    def __init__(self, prop, tier, level='model_checking'):
        self.prop = prop
        self.tier = tier
        self.level = level
        self.t0 = time.time()
        self.violations = []          # dicts: {'key':..., 'what':..., 'detail':...}
        self.cov = {'states': 0, 'transitions': 0, 'traces_validated_against_impl': 0, 'samples': [],
                    'evaluations': 0, 'distinct_nontrivial': 0, 'rule': '', 'parts': {}}
        self.assumptions = []
        self.diagnostics = []

    def add_tlc(self, stats, name=None):
        self.cov['states'] += stats['distinct']
        self.cov['transitions'] += stats['states']
        self.cov['parts'][name or stats['module']] = {k: stats[k] for k in ('states', 'distinct', 'wall_s') if k in stats}

    def sample(self, s, limit=6):
        if len(self.cov['samples']) < limit:
            self.cov['samples'].append(s)

    def violation(self, key, what, detail):
        self.violations.append({'key': key, 'what': what, 'detail': detail})


def load_known():
    p = os.path.join(VERIF, 'KNOWN_FINDINGS.json')
    if not os.path.exists(p):
        return []
    return json.load(open(p)).get('findings', [])


def finish(res):
    """Write evidence, print KNOWN-FINDING / VIOLATION lines, return the exit status."""
    known = [k for k in load_known() if k.get('property') == res.prop and k.get('status') == 'known']
    new, hits = [], {}
    for v in res.violations:
        m = next((k for k in known if k.get('key') == v['key']), None)
        if m is not None:
            hits.setdefault(m['key'], m)
        else:
            new.append(v)
    os.makedirs(EVIDENCE, exist_ok=True)
    wall = time.time() - res.t0
    cov = dict(res.cov)
    cov['exhaustive'] = cov.get('exhaustive', False)
    ev = {'property_id': res.prop, 'tier': res.tier, 'seed': seed(), 'level': res.level, 'coverage': cov,
          'assumptions': res.assumptions, 'wall_s': round(wall, 1), 'violations': len(new),
          'known_findings_hit': sorted(hits), 'diagnostics': res.diagnostics[:20]}
    with open(os.path.join(EVIDENCE, res.prop + '.json'), 'w') as f:
        json.dump(ev, f, indent=1, sort_keys=True, default=str)
        f.write('\n')
    for k in hits.values():
        print('KNOWN-FINDING: property=%s %s' % (res.prop, k.get('what', k['key'])))
    if new:
        rdir = os.path.join(BUILD, 'replay')
        os.makedirs(rdir, exist_ok=True)
        seen = set()
        for i, v in enumerate(new):
            if v['key'] in seen and i > 20:
                continue
            seen.add(v['key'])
            path = os.path.join(rdir, '%s-%s-%d.json' % (res.prop, re.sub(r'[^A-Za-z0-9_.-]', '_', v['key'])[:60], i))
            with open(path, 'w') as f:
                json.dump({'property': res.prop, 'key': v['key'], 'what': v['what'], 'detail': v['detail']}, f, indent=1, default=str)
            if i < 20:
                print('VIOLATION property=%s replay=%s' % (res.prop, path))
                print('  %s' % v['what'])
        log('%s: %d violation(s) in %.1fs' % (res.prop, len(new), wall))
        return 1
    log('%s: ok (%d known finding(s)) in %.1fs' % (res.prop, len(hits), wall))
    return 0
