"""Token-level concretiser for PatchText.tla: tokens -> bytes (several spellings per class)."""
import render as R

NULL = '/dev/null'


def name_str(n):
    """An abstract name as the str it stands for: `U` stands for a non-ASCII letter (two bytes in UTF-8)."""
    return n.replace('U', '\u00ef')


def name_bytes(n, variant):
    if n == NULL:
        return b'/dev/null'
    n = name_str(n)
    if any(ch in n for ch in ' \t"\\') or any(ord(ch) < 33 or ord(ch) == 127 for ch in n):
        if variant % 2:
            return R.cquote(n).encode()
        return ('"' + n.replace('\\', '\\\\').replace('"', '\\"') + '"').encode()
    if any(ord(ch) > 126 for ch in n):
        # bytes above 0x7e need no quoting on input (git quotes them, GNU diff does not); the writer quotes them
        return [n.encode(), R.cquote(n).encode(), ('"' + n + '"').encode()][variant % 3]
    return n.encode()


def text_bytes(s, variant):
    """Byte spelling of an abstract line text (without newline)."""
    v = variant % 4
    b = s.encode()
    if v == 1:
        return b + b'\r'
    if v == 2:
        return b'\xff' + b + b'\x00'
    if v == 3:
        return b'- ' + b + b' \\'
    return b


GARBAGE = [b'Index: foo.c', b'===================================================================', b'Some commit message.',
           b'old mode 12', b'new file mode 1006444', b'index zz..yy', b'index 123', b'--- ', b'+++', b'diff --git onlyone',
           b'@@ garbage @@', b'similarity index 90%', b'Signed-off-by: x <y@z>', b'rename from', b'deleted file mode', b'GIT binary',
           b'---', b'diff -u -r a b', b'Only in x: y', b'\x00\xff\xfe', b'*** a/x', b'"unterminated']
# garbage that stays garbage inside a hunk body too (first byte not one of + - space tab newline)
BODY_SAFE = [g for g in GARBAGE if g[:1] not in (b'+', b'-', b' ', b'\t', b'')]
BADHH = [b'@@ -x,1 +1 @@', b'@@ -1,2', b'@@ -1 +99999999999999999999999 @@', b'@@ -1,2 +1,2', b'@@ -1,2 +1,2 x', b'@@ -,1 +1 @@', b'@@ -1 1 @@',
         b'@@ -18446744073709551616,1 +1 @@',
         # one side fits a machine word but not a line number (> isize::MAX), the other is ordinary
         b'@@ -18446744073709551615,1 +1,1 @@', b'@@ -1,1 +9223372036854775808,1 @@', b'@@ -9223372036854775808,1 +1 @@', b'@@ -1 +18446744073709551615 @@']


def tok_bytes(t, variant, tv=0):
    k = t['k']
    if k == 'garb':
        pool = BODY_SAFE
        return pool[variant % len(pool)] + b'\n'
    if k == 'empty':
        return b'\n'
    if k == 'minus':
        return b'--- ' + name_bytes(t['n'], variant) + (b'\t2020-01-01 10:00:00.000000000 +0000' if variant % 3 == 1 else b'') + b'\n'
    if k == 'plus':
        return b'+++ ' + name_bytes(t['n'], variant) + (b'\t2020-01-02 10:00:00.000000000 +0000' if variant % 3 == 1 else b'') + b'\n'
    if k == 'git':
        return b'diff --git ' + name_bytes(t['o'], variant) + b' ' + name_bytes(t['n'], variant) + b'\n'
    if k == 'index':
        return b'index ' + t['o'].encode() + b'..' + t['n'].encode() + (b' 100644' if variant % 2 else b'') + b'\n'
    if k in ('oldmode', 'newmode', 'delmode', 'newfilemode'):
        kw = {'oldmode': b'old mode ', 'newmode': b'new mode ', 'delmode': b'deleted file mode ', 'newfilemode': b'new file mode '}[k]
        return kw + t['m'].encode() + b'\n'
    if k in ('renfrom', 'rento', 'copyfrom', 'copyto'):
        kw = {'renfrom': b'rename from ', 'rento': b'rename to ', 'copyfrom': b'copy from ', 'copyto': b'copy to '}[k]
        return kw + b'some/name' + b'\n'
    if k == 'binary':
        return b'GIT binary patch\n'
    if k == 'hh':
        def r(a, c):
            return (b'%d' % a) if (c == 1 and variant % 2) else (b'%d,%d' % (a, c))
        return b'@@ -' + r(t['os'], t['oc']) + b' +' + r(t['ns'], t['nc']) + b' @@' + (b' int main()' if variant % 5 == 2 else b'') + b'\n'
    if k == 'badhh':
        return BADHH[variant % len(BADHH)] + b'\n'
    if k in ('add', 'del', 'ctx'):
        return {'add': b'+', 'del': b'-', 'ctx': b' '}[k] + text_bytes(t['s'], tv) + b'\n'
    if k == 'tabctx':
        return b'\t' + text_bytes(t['s'], tv) + b'\n'
    if k == 'nonl':
        return [b'\\ No newline at end of file\n', b'\\ Kein Zeilenumbruch am Dateiende.\n', b'\\\n'][variant % 3]
    raise ValueError(k)


def render(tokens, variant, trunc=False):
    """variant picks the spellings of the line classes (varied per line), variant // 7 the spelling of line texts (fixed per patch)."""
    out = b''.join(tok_bytes(t, variant + i, variant // 7) for i, t in enumerate(tokens))
    if trunc and out.endswith(b'\n'):
        out = out[:-1]
    return out
