"""C09 (pushes compose), C16 (series options and name resolution), C17 (inconsistent state refused) on the
command-layer model Cmd.tla, enumerated by MC_Cmd and replayed into the real binary."""
import json, os, random
from multiprocessing import Pool
from vlib import *
import ws, scen

CMD_CFG = """
INIT Init
NEXT Next
INVARIANT Composes
INVARIANT Emit
"""


def enum(res, mode, work, maxwords=3, maxinv=3):
    out = os.path.join(work, mode + '.tlc')
    st = tlc('MC_Cmd', constants={'Mode': '"%s"' % mode, 'MaxWords': maxwords, 'MaxInv': maxinv, 'EmitCases': 'TRUE'}, cfg_body=CMD_CFG, out=out, tag='cmd-' + mode)
    res.add_tlc(st, 'MC_Cmd/' + mode)
    cases = list(tlc_json_lines(out))
    os.unlink(out)
    return cases


# ------------------------------------------------------------------------------------------ C16
def word(w, variant):
    k = w['k']
    if k == 'name':
        return w['s']
    if k == 'hash':
        return '#comment'
    if k == 'p':
        return '-p%d' % w['v'] if w['v'] >= 0 else ('-pX' if variant % 2 else '-p-1')
    if k == 'popt':
        return '-p'
    if k == 'strip':
        return '--strip=%d' % w['v']
    if k == 'stripopt':
        return '--strip'
    if k == 'R':
        return '-R' if variant % 2 else '--reverse'
    if k == 'Rp':
        return '-Rp%d' % w['v']
    if k == 'bad':
        return '-x' if variant % 2 else '--bogus'
    if k == 'num':
        return str(w['v'])
    raise ValueError(k)


DEPTH_PATHS = ['x/y/a', 'y/a', 'a']


def line_job(job):
    case, variant, value, threads = job
    words = [word(w, variant + i) for i, w in enumerate(case['line'])]
    text = ('  ' if case['lead'] else '') + (' ' if variant % 3 else '\t').join(words)
    v = case['verdict']
    w = ws.mkws('c16')
    try:
        for p in DEPTH_PATHS:
            ws.write(w, p, scen.content([value]))
        fp = {'kind': 'M', 'old': 'x/y/a', 'new': 'x/y/a', 'ren': False, 'hunks': [{'cell': 1, 'from': 0, 'to': 1}], 'to': [], 'from': [], 'nmode': 'none'}
        # the name is spelled with single or with doubled separators: a run of slashes ends one component, whatever -pN strips
        spelled = (b'x/y/a', b'x//y/a', b'x/y//a', b'x///y//a')[(variant + len(words) + value) % 4]
        patch = b'--- ' + spelled + b'\n+++ ' + spelled + b'\n' + scen.hunk_text(fp['hunks'][0])
        ws.write(w, 'patches/' + words[0], patch)
        ws.write(w, 'series', ('# a comment\n\n' + text + '\n   \n').encode())
        before = ws.snapshot(w)
        rc, so, se = ws.push(w, ['-a', '-q', '--threads', threads])
        after = ws.snapshot(w)
        probs = []
        if ws.crashed(rc):
            return [('crash', 'exit status %s: %s' % (rc, se[-200:]))], text
        if v['kind'] == 'ignored':
            if rc != 0 or after != before:
                probs.append(('ignored-line', 'a comment / blank line was not ignored: exit %d, changed %s' % (rc, sorted(set(after) ^ set(before)))))
        elif v['kind'] == 'error':
            if rc != 1 or after != before:
                probs.append(('bad-options', 'bad per-patch options not refused cleanly: exit %d, tree changed: %s' % (rc, after != before)))
        else:
            strip, rev = v['strip'], v['reverse']
            target = DEPTH_PATHS[strip] if strip < 3 else None
            applies = (value == 0 and not rev) or (value == 1 and rev)
            changed = sorted(p for p in DEPTH_PATHS if after.get(p) != before.get(p))
            if target is None:
                # exactly N components are removed: nothing is left of x/y/a, the file patch names no file (Names.Strip = <<>>)
                if rc != 1 or after != before or not se.strip():
                    probs.append(('strip-too-deep', 'line %r means -p%d on the name x/y/a: expected a refusal (exit 1, message, nothing changed); got exit %d, changed %s'
                                  % (text, strip, rc, sorted(p for p in set(after) | set(before) if after.get(p) != before.get(p)))))
            elif applies:
                want = scen.content([1 - value])
                if rc != 0 or changed != [target] or after[target][0] != want:
                    probs.append(('strip-or-reverse', 'line %r means -p%d%s: expected only %s to change to cell=%d, exit 0; got exit %d, changed %s'
                                  % (text, strip, ' -R' if rev else '', target, 1 - value, rc, changed)))
            else:
                if rc != 1 or changed:
                    probs.append(('strip-or-reverse', 'line %r means -p%d%s: the hunk cannot apply to cell=%d, expected exit 1 and no change; got exit %d, changed %s'
                                  % (text, strip, ' -R' if rev else '', value, rc, changed)))
                rej = sorted(p for p in after if p.endswith('.rej'))
                if rc == 1 and rej != [target + '.rej']:
                    probs.append(('strip-or-reverse', 'reject file %s, expected %s.rej' % (rej, target)))
        return probs, text
    finally:
        ws.rmws(w)


def two_line_job(job):
    """Two series entries: each is applied with its own options (the second must not inherit anything from the first)."""
    opt1, strip1, opt2, rev2, threads = job
    w = ws.mkws('c16b')
    try:
        for p in DEPTH_PATHS:
            ws.write(w, p, scen.content([0]))
        for p in ('x/y/b', 'y/b', 'b'):
            ws.write(w, p, scen.content([1 if rev2 else 0]))
        ws.write(w, 'patches/p1.patch', b'--- x/y/a\n+++ x/y/a\n' + scen.hunk_text({'cell': 1, 'from': 0, 'to': 1}))
        ws.write(w, 'patches/p2.patch', b'--- x/y/b\n+++ x/y/b\n' + scen.hunk_text({'cell': 1, 'from': 0, 'to': 1}))
        ws.write(w, 'series', ('p1.patch %s\np2.patch %s\n' % (opt1, opt2)).encode())
        before = ws.snapshot(w)
        rc, so, se = ws.push(w, ['-a', '-q', '--threads', threads])
        after = ws.snapshot(w)
        if ws.crashed(rc):
            return [('crash', 'exit status %s: %s' % (rc, se[-200:]))]
        changed = sorted(p for p in set(after) | set(before) if after.get(p) != before.get(p) and not p.startswith('.pc'))
        want = sorted([DEPTH_PATHS[strip1], 'y/b'])
        if rc != 0 or changed != want or after['y/b'][0] != scen.content([0 if rev2 else 1]):
            return [('two-entries', 'series "p1.patch %s / p2.patch %s": expected exactly %s to change (the second entry with the default -p1%s), exit 0; got exit %d, changed %s'
                     % (opt1, opt2, want, ' reversed' if rev2 else '', rc, changed))]
        return []
    finally:
        ws.rmws(w)


def check_c16(prop, tier):
    import p_tool
    res = Result(prop, tier)
    work = scratch(prop)
    rnd = random.Random(seed())
    try:
        cases = enum(res, 'lines', work, maxwords=3 if tier == 'quick' else 4)
        if tier == 'quick' and len(cases) > 2500:
            cases = rnd.sample(cases, 2500)
        jobs = [(c, seed() + i, i % 2, 1 + (i % 3 == 0)) for i, c in enumerate(cases)]
        with Pool(12) as pool:
            outs = pool.map(line_job, jobs, chunksize=16)
        kinds = {}
        for (c, variant, value, threads), (probs, text) in zip(jobs, outs):
            kinds[c['verdict']['kind']] = kinds.get(c['verdict']['kind'], 0) + 1
            for cat, msg in probs:
                res.violation(cat, msg, {'series_line': text, 'model_verdict': c['verdict'], 'file_cell_value': value, 'threads': threads})
        # pairs of entries: the options of one entry do not leak into the next
        tjobs = [(o1, s1, o2, r2, t) for (o1, s1) in (('-p0', 0), ('-p2', 2), ('--strip=2', 2), ('-p 2', 2), ('-p0 -R', None), ('', 1))
                 for (o2, r2) in (('', False), ('-R', True), ('--reverse', True), ('-p1', False)) for t in (1, 2) if s1 is not None]
        with Pool(12) as pool:
            touts = pool.map(two_line_job, tjobs, chunksize=2)
        for j, probs in zip(tjobs, touts):
            for cat, msg in probs:
                res.violation(cat, msg, {'first_entry_options': j[0], 'second_entry_options': j[2], 'threads': j[4]})
        res.cov['parts']['series-lines'] = {'lines': len(cases), 'by_verdict': kinds, 'two_entry_series': len(tjobs)}
        res.cov['traces_validated_against_impl'] += len(jobs)
        res.cov['evaluations'] += len(jobs)
        res.cov['distinct_nontrivial'] += len(cases)
        res.sample({'series_line': outs[len(outs) // 2][1], 'model_verdict': jobs[len(jobs) // 2][0]['verdict']})
        # name resolution: scenarios whose series contains a file patch with differing names (old if it exists —
        # on disk or as left by earlier patches of the run — else new), sequential vs parallel vs split pushes
        out, st = p_tool.enumerate_scenarios(res, 'name-resolution', 'TreesAll' if tier == 'thorough' else 'TreesSmall', 'TRUE', 2, 'Cfgs_push', work)
        lines = [l for l in open(out, errors='replace') if l.startswith('"{') and '\\"old\\":\\"a\\",\\"new\\":\\"b\\",\\"ren\\":false' in l]
        os.unlink(out)
        pick = lines if len(lines) <= 3000 else rnd.sample(lines, 3000 if tier == 'quick' else 20000)
        jobs2 = []
        for li, line in enumerate(pick):
            sc = json.loads(json.loads(line))
            o = sc['outs'][0]
            if o['out']['adversarial']:
                continue
            for threads in (1, 3):
                jobs2.append((sc, o['cfg'], o['out'], threads, None))
        with Pool(12) as pool:
            outs2 = pool.map(p_tool.run_one, jobs2, chunksize=16)
        nb = 0
        for (sc, cfg, o, threads, _), (probs, rc, se) in zip(jobs2, outs2):
            for cat, msg in probs:
                if cat in ('tree', 'backup-set', 'crash', 'rej-set'):
                    nb += 1
                    res.violation('name-resolution:' + cat, 'file-name resolution (old name if it exists, else new): %s (threads %d)' % (msg, threads),
                                  {'tree0': sc['tree0'], 'series': sc['series'], 'cfg': cfg, 'threads': threads, 'reference': o})
        res.cov['parts']['name-resolution'].update({'scenarios_with_differing_names': len(lines), 'runs': len(jobs2), 'bad': nb})
        res.cov['traces_validated_against_impl'] += len(jobs2)
        # ... the same with -R entries in the series (what a reversed creation / deletion leaves decides which name exists)
        out, st = p_tool.enumerate_scenarios(res, 'name-resolution-reverse', 'TreesSmall', 'TRUE', 2, 'Cfgs_one', work, 'TRUE')
        rl = [l for l in open(out, errors='replace') if l.startswith('"{') and '\\"old\\":\\"a\\",\\"new\\":\\"b\\",\\"ren\\":false' in l and '\\"rev\\":true' in l]
        os.unlink(out)
        jobs3 = []
        for li, line in enumerate(rl if len(rl) <= 1500 else rnd.sample(rl, 1500 if tier == 'quick' else 15000)):
            sc = json.loads(json.loads(line))
            o = sc['outs'][0]
            if not o['out']['adversarial']:
                jobs3.append((sc, o['cfg'], o['out'], 1 + li % 3, None))
        with Pool(12) as pool:
            outs3 = pool.map(p_tool.run_one, jobs3, chunksize=16)
        nb3 = 0
        for (sc, cfg, o, threads, _), (probs, rc, se) in zip(jobs3, outs3):
            for cat, msg in probs:
                if cat in ('tree', 'backup-set', 'crash', 'rej-set', 'exit'):
                    nb3 += 1
                    res.violation('name-resolution:' + cat, 'file-name resolution with -R entries: %s (threads %d)' % (msg, threads),
                                  {'tree0': sc['tree0'], 'series': sc['series'], 'cfg': cfg, 'threads': threads, 'reference': o})
        res.cov['parts']['name-resolution-reverse'].update({'scenarios': len(rl), 'runs': len(jobs3), 'bad': nb3})
        res.cov['traces_validated_against_impl'] += len(jobs3)
        # -R at the level of hunks: the diff A -> B of every small edit script with two or more hunks, marked -R in the
        # series (spelled at -p1 / -p2), pushed onto B gives A (placement uses the new side's line numbers)
        import p_diff
        out = os.path.join(work, 'rdiff.tlc')
        st = tlc('MC_Diff', constants=dict(p_diff.PLAN['quick'], WithNoEol='FALSE'), cfg_body=p_diff.CFG, out=out, tag='c16-diff')
        res.add_tlc(st, 'reverse-hunks/MC_Diff')
        dcases = list(enumerate(tlc_json_lines(out)))
        os.unlink(out)
        rjobs = []
        for ci, case in dcases:
            for j in p_diff.jobs_for_case(ci, case, 0, ['plain-p1', 'plain-p2']):
                if j['rev'] and j['nh'] >= 2 and not j['ambiguous'] and not j['a_abs'] and not j['b_abs']:
                    j['id'] = len(rjobs); rjobs.append(j)
        rjobs = rnd.sample(rjobs, min(len(rjobs), 700 if tier == 'quick' else 8000))
        with Pool(12) as pool:
            routs = pool.map(p_diff.cli_case, [(j, 1 + j['id'] % 2) for j in rjobs], chunksize=8)
        nb4 = 0
        for j, why in zip(rjobs, routs):
            if why:
                nb4 += 1
                res.violation('reverse-hunks', 'a multi-hunk diff A->B marked -R in the series, pushed onto B, does not give A: ' + why,
                              {'patch': bytes.fromhex(j['patch']).decode('latin-1'), 'b_hex': j['a'], 'series_opts': '-p%d -R' % j['strip']})
        res.cov['parts']['reverse-hunks/MC_Diff'].update({'pushed': len(rjobs), 'bad': nb4})
        res.cov['traces_validated_against_impl'] += len(rjobs)
        ws.cleanup_all()
    finally:
        shutil.rmtree(work, ignore_errors=True)
    res.cov['exhaustive'] = False
    res.cov['rule'] = ('every series line of up to MaxWords words (the name x/y/a in the patch spelled with single and doubled separators in rotation) over 13 word classes (name, #word, -pN, -p N, --strip=N, --strip N, -R/--reverse, -RpN, unknown option, bare number, non-numeric strip), with and '
                       'without leading blanks (TLC, exhaustive; sampled in the quick tier), each run against files at path depths 0/1/2 holding either cell value; plus all scenarios with a differing-names file patch '
                       'for the old-if-exists-else-new rule, memory overriding disk')
    return res


# ------------------------------------------------------------------------------------------ C17
GOOD_SECTION = b'--- a/other\n+++ b/other\n@@ -1 +1 @@\n-untouched\n+touched\n'
BROKEN = {      # one representative per error class of the parser model; each starts with a complete, applicable file section
    'garbage': GOOD_SECTION + b'--- a/a\n+++ b/a\n@@ -1,2 +1,2 @@\n ctx 1.1\nthis is not a hunk line\n',      # BadLineInHunk
    'truncated': GOOD_SECTION + b'--- a/a\n+++ b/a\n@@ -1,3 +1,3 @@\n ctx 1.1\n-ctx 1.2',                          # UnexpectedEndOfFile in the middle of a hunk
    'badheader': GOOD_SECTION + b'--- a/a\n+++ b/a\n@@ -1,x +1 @@\n-a\n+b\n',                                    # BadHunkHeader
    'nofilename': GOOD_SECTION + b'--- /dev/null\n+++ /dev/null\n@@ -1 +1 @@\n-a\n+b\n',                          # MissingFilenameForHunk
    'binary': GOOD_SECTION + b'diff --git a/a b/a\nGIT binary patch\nliteral 0\n',                                  # UnsupportedMetadata
}


def goal_args(goal):
    g = goal['g']
    if g in ('default', 'all'):
        return {'default': [], 'all': ['-a']}[g]
    if g == 'count':
        return [str(goal['n'])]
    if g == 'name':
        return [goal['s']]
    if g == 'acount':
        return ['-a', str(goal['n'])]
    return [goal['s'], '-a'] if goal['s'].startswith('p2') else ['-a', goal['s']]     # "aname"


def dry_prelude(w, args, skip=()):
    """C10 on an arbitrary workspace: the same push with --dry-run first.  Returns (problems, (rc, failing patch))."""
    import p_tool
    before = ws.snapshot(w, skip=skip, meta=True)
    rc, so, se = ws.push(w, list(args) + ['--dry-run'])
    after = ws.snapshot(w, skip=skip, meta=True)
    probs = []
    if ws.crashed(rc):
        probs.append(('crash', 'dry run exits with %s: %s' % (rc, se.strip()[-200:])))
    if after != before:
        ch = sorted(p_ for p_ in set(after) | set(before) if after.get(p_) != before.get(p_))
        probs.append(('dry-wrote', '--dry-run changed %s' % ch))
    return probs, (rc, p_tool.failing_name(se), se.strip()[-160:])


def dry_compare(pre, rc, se):
    import p_tool
    if (pre[0], pre[1]) != (rc, p_tool.failing_name(se)):
        return [('dry-predicts', 'dry run says exit %s / failing %s (%s), the real run exit %s / failing %s (%s)'
                 % (pre[0], pre[1], pre[2], rc, p_tool.failing_name(se), se.strip()[-160:]))]
    return []


def state_job(job):
    case, threads = job[0], job[1]
    dry, failpos = (job[2], job[3]) if len(job) > 2 else (False, 0)
    failpos = failpos or case['st'].get('fail', 0)
    custom = job[4] if len(job) > 4 else None           # bytes of the broken patch file (instead of BROKEN[how])
    st, v = case['st'], case['verdict']
    n = st['n']
    w = ws.mkws('c17')
    try:
        applied = st['applied']
        is_prefix = applied == st['series'][:len(applied)]
        cells = [1 if (is_prefix and i < len(applied)) else 0 for i in range(3)]
        ws.write(w, 'a', scen.content(cells))
        ws.write(w, 'other', b'untouched\n')
        for i, name in enumerate(st['series'], 1):
            if st['broken']['pos'] == i:
                if st['broken']['how'] != 'missing':
                    ws.write(w, 'patches/' + name, custom if custom is not None else BROKEN[st['broken']['how']])
                continue
            if st.get('b2', 0) == i:
                continue                    # a second patch file that is missing, behind the first broken one
            # failpos (C10 only): this patch does not apply (it expects a cell value the file never has)
            fp = {'kind': 'M', 'old': 'a', 'new': 'a', 'ren': False, 'hunks': [{'cell': i, 'from': 7 if i == failpos else 0, 'to': 1}], 'to': [], 'from': [], 'nmode': 'none'}
            ws.write(w, 'patches/' + name, scen.render_fp(fp))
        ws.write(w, 'series', ('\n'.join(st['series']) + '\n').encode())
        if applied:
            ws.write(w, '.pc/applied-patches', ('\n'.join(applied) + '\n').encode())
        if dry:
            probs, pre = dry_prelude(w, goal_args(st['goal']) + ['-q', '--threads', threads])
            rc, so, se = ws.push(w, goal_args(st['goal']) + ['-q', '--threads', threads])
            return probs + dry_compare(pre, rc, se)
        before = ws.snapshot(w, meta=True)
        rc, so, se = ws.push(w, goal_args(st['goal']) + ['-q', '--threads', threads])
        after = ws.snapshot(w, meta=True)
        probs = []
        if ws.crashed(rc):
            return [('crash', 'exit status %s instead of a clean refusal: %s' % (rc, se.strip()[-300:]))]
        if rc != v['exit']:
            probs.append(('exit', 'exit status %d, model says %d (refused=%s, broken patch in range=%s): %s' % (rc, v['exit'], v['refused'], v['hitsBroken'], se.strip()[-150:])))
        if v['exit'] == 1 and v.get('stoppedAt') and v.get('brokenBehind') and rc == 1 and after == before:
            # a broken patch file behind the patch that does not apply: refusing everything is the other outcome the
            # properties leave open (the parallel driver loads the whole range before it applies anything)
            if not se.strip():
                probs.append(('no-message', 'refusal without a message'))
        elif v['exit'] == 1 and v.get('stoppedAt'):
            # the push ends at a patch that does not apply: everything before it is applied and recorded, whatever is
            # wrong with the patch files behind it
            want_cells = [1 if i < v['appliedAfter'] else cells[i] for i in range(3)]
            got = scen.cells_of(after.get('a', (b'',))[0])
            if got != want_cells:
                probs.append(('result', 'push ends at patch %d, which does not apply: cells of a are %s, expected %s' % (v['stoppedAt'], got, want_cells)))
            ap = after.get('.pc/applied-patches')
            names = ap[0].decode().split('\n')[:-1] if ap else []
            if names != st['series'][:v['appliedAfter']]:
                probs.append(('result', 'push ends at patch %d, which does not apply: applied-patches %s, expected %s' % (v['stoppedAt'], names, st['series'][:v['appliedAfter']])))
            if after.get('other') != before.get('other'):
                probs.append(('touched', 'a file no patch names was changed'))
        elif v['exit'] == 1:
            if after != before:
                ch = sorted(p for p in set(after) | set(before) if after.get(p) != before.get(p))
                probs.append(('touched', 'the push was refused but changed %s' % ch))
            if not se.strip():
                probs.append(('no-message', 'refusal without a message'))
        else:
            want_cells = [1 if i < v['appliedAfter'] else cells[i] for i in range(3)]
            got = scen.cells_of(after.get('a', (b'',))[0])
            if got != want_cells:
                probs.append(('result', 'cells of a are %s, expected %s' % (got, want_cells)))
            ap = after.get('.pc/applied-patches')
            names = ap[0].decode().split('\n')[:-1] if ap else []
            if v['appliedAfter'] != len(applied) or ap:
                if names != st['series'][:v['appliedAfter']]:
                    probs.append(('result', 'applied-patches %s, expected %s' % (names, st['series'][:v['appliedAfter']])))
        return probs
    finally:
        ws.rmws(w)


def check_c17(prop, tier):
    res = Result(prop, tier)
    work = scratch(prop)
    try:
        cases = enum(res, 'states', work)
        jobs = [(c, t) for c in cases for t in (1, 2)]
        with Pool(12) as pool:
            outs = pool.map(state_job, jobs, chunksize=16)
        # "unparseable" is what the parser model (PatchText.tla) rejects: every token sequence of the MC_Tokens universes that the
        # model rejects must be rejected by the real parser (in-process, all of them), and a sample of them, as the patch file
        # at each position of a series, must make the push refuse cleanly
        import p_text, toks
        tcases = []
        for tag, prefix, maxlen in p_text.PREFIXES[tier]:
            out = os.path.join(work, tag + '.tlc')
            stt = tlc('MC_Tokens', constants={'MaxLen': maxlen, 'EmitCases': 'TRUE', 'Prefix': prefix}, cfg_body=p_text.TOK_CFG, out=out, tag='c17-tok-' + tag)
            res.add_tlc(stt, 'MC_Tokens/' + tag)
            tcases += [c for c in tlc_json_lines(out) if not c['ok'] and not (c['trunc'] and c['toks'][-1]['k'] == 'empty')]
            os.unlink(out)
        tjobs = [(i, toks.render(c['toks'], seed() + i, c['trunc'])) for i, c in enumerate(tcases)]
        tres = p_text.run_total(tjobs, res, strip=0)
        nacc = 0
        for (i, data), c in zip(tjobs, tcases):
            r = tres.get(i)
            if r is not None and r[0] == 'ok':
                nacc += 1
                res.violation('unparseable-accepted', 'a patch text the parser model rejects (%s) is accepted by the parser' % c['err'],
                              {'tokens': c['toks'], 'truncated_last_line': c['trunc'], 'input': data.decode('latin-1')})
        rnd = random.Random(seed())
        pickc = [cs for cs in cases if cs['st']['broken']['pos'] >= 1 and cs['st']['broken']['how'] == 'garbage' and cs['verdict']['exit'] == 1 and cs['verdict']['hitsBroken']]
        tsample = rnd.sample(range(len(tjobs)), min(len(tjobs), 400 if tier == 'quick' else 5000))
        # (the file pushed is a good section followed by the rejected text; it is used when the parser rejects that, too)
        whole = [(k, GOOD_SECTION + tjobs[ti][1]) for k, ti in enumerate(tsample)]
        wres = p_text.run_total(whole, res, strip=0)
        cjobs = [(pickc[k % len(pickc)], 1 + k % 2, False, 0, data) for k, data in whole if wres.get(k, ('',))[0] == 'err'] if pickc else []
        with Pool(12) as pool:
            couts = pool.map(state_job, cjobs, chunksize=16)
        for (c, t, _, _, data), probs in zip(cjobs, couts):
            for cat, msg in probs:
                res.violation(cat, 'a patch file the parser model rejects, at position %d of the range: %s' % (c['st']['broken']['pos'], msg),
                              {'state': c['st'], 'broken_patch_file': data.decode('latin-1'), 'threads': t})
        res.cov['parts']['model-rejected-texts'] = {'token_sequences_rejected_by_model': len(tcases), 'accepted_by_parser': nacc, 'pushed_as_patch_file': len(cjobs)}
        res.cov['traces_validated_against_impl'] += len(tcases) + len(cjobs)
        stats = {'states': len(cases), 'runs': len(jobs), 'expected_refusals': sum(1 for c in cases if c['verdict']['exit'] == 1)}
        for (c, t), probs in zip(jobs, outs):
            for cat, msg in probs:
                res.violation(cat, 'series/applied-patches/goal handling: ' + msg, {'state': c['st'], 'model_verdict': c['verdict'], 'threads': t})
        res.cov['parts']['states'] = stats
        res.cov['traces_validated_against_impl'] += len(jobs)
        res.cov['evaluations'] += len(jobs)
        res.cov['distinct_nontrivial'] += len(cases)
        res.sample({'state': cases[len(cases) // 2]['st'], 'model_verdict': cases[len(cases) // 2]['verdict']})
        ws.cleanup_all()
    finally:
        shutil.rmtree(work, ignore_errors=True)
    res.cov['exhaustive'] = True
    res.cov['rule'] = ('every combination of series length 1..3 x applied-patches variant (every prefix, longer than series, reordered, edited, duplicated) x goal (default, -a, 0/2/7, each name, unknown name) '
                       'x broken patch (none / missing / unparseable at each position), each with 1 and 2 threads; refusal => exit 1, message, snapshot incl. inode+mtime unchanged')
    return res


# ------------------------------------------------------------------------------------------ C09
def sess_files(fail):
    files = {}
    for i in range(1, 5):
        frm = 5 if i == fail else 0
        fp = {'kind': 'M', 'old': 'a', 'new': 'a', 'ren': False, 'hunks': [{'cell': i, 'from': frm, 'to': 1}], 'to': [], 'from': [], 'nmode': 'none'}
        files['patches/p%d.patch' % i] = scen.render_fp(fp)
    files['series'] = b''.join(b'p%d.patch\n' % i for i in range(1, 5))
    files['a'] = scen.content([0, 0, 0, 0])
    files['b'] = b'bystander\n'
    return files


def observable(snap):
    """what C09 compares: tree, reject files, .pc/applied-patches (backups excluded)"""
    return {p: v for p, v in snap.items() if not p.startswith('.pc/') or p == '.pc/applied-patches'}


def session_job(case):
    fail, plan, exp = case['fail'], case['plan'], case['expect']
    probs = []
    w = ws.mkws('c09')
    w2 = ws.mkws('c09s')
    try:
        for p, d in sess_files(fail).items():
            ws.write(w, p, d); ws.write(w2, p, d)
        exits = []
        for inv in plan:
            rc, so, se = ws.push(w, goal_args(inv['goal']) + ['-q', '--threads', inv['threads']])
            if ws.crashed(rc):
                return [('crash', 'invocation %s exits with %s: %s' % (inv, rc, se[-200:]))]
            exits.append(rc)
        snap = ws.snapshot(w)
        if exits != exp['exits']:
            probs.append(('exits', 'exit statuses %s, model says %s' % (exits, exp['exits'])))
        cells = scen.cells_of(snap['a'][0])
        want = [1 if i < exp['applied'] else 0 for i in range(4)]
        if cells != want:
            probs.append(('tree', 'cells %s after the session, model says %s' % (cells, want)))
        # the single invocation to the furthest goal
        if exp['far'] > 0:
            rc, so, se = ws.push(w2, [str(exp['far']), '-q', '--threads', 1])
            single = ws.snapshot(w2)
            if observable(single) != observable(snap):
                a, b = observable(single), observable(snap)
                diff = sorted(p for p in set(a) | set(b) if a.get(p) != b.get(p))
                probs.append(('composition', 'the session and the single push to patch %d differ in %s' % (exp['far'], diff)))
        return probs
    finally:
        ws.rmws(w); ws.rmws(w2)


def split_job(job):
    sc, plan, threads = job[:3]
    w1, w2 = ws.mkws('spl'), ws.mkws('sgl')
    scen.set_names(job[3] if len(job) > 3 else 0)
    try:
        opts = [('-R' if pt.get('rev') else '') for pt in sc['series']]
        scen.materialise(w1, sc['tree0'], sc['series'], opts)
        scen.materialise(w2, sc['tree0'], sc['series'], opts)
        last = None
        # (every other scenario with the other loader: what one invocation leaves on disk, the next one maps)
        mm = ['--mmap'] if len(job) > 3 and job[3] else []
        for goal in plan:
            rc, so, se = ws.push(w1, goal + ['-q', '--threads', threads] + mm)
            if ws.crashed(rc):
                return [('crash', 'push %s exits with %s: %s' % (goal, rc, se[-150:]))]
            last = rc
        rc2, so2, se2 = ws.push(w2, ['-a', '-q', '--threads', 3 - threads if threads in (1, 2) else 1] + mm)
        a, b = observable(ws.snapshot(w1)), observable(ws.snapshot(w2))
        probs = []
        if a != b:
            probs.append(('result', 'differing paths %s' % sorted(p for p in set(a) | set(b) if a.get(p) != b.get(p))))
        if last != rc2:
            probs.append(('exit', 'last exit status %s vs %s' % (last, rc2)))
        return probs
    finally:
        scen.set_names(0)
        ws.rmws(w1); ws.rmws(w2)


def check_c09(prop, tier):
    res = Result(prop, tier)
    work = scratch(prop)
    rnd = random.Random(seed())
    try:
        cases = enum(res, 'sessions', work, maxinv=3 if tier == 'quick' else 4)
        if tier == 'quick' and len(cases) > 1800:
            cases = rnd.sample(cases, 1800)
        with Pool(12) as pool:
            outs = pool.map(session_job, cases, chunksize=8)
        for c, probs in zip(cases, outs):
            for cat, msg in probs:
                res.violation(cat, 'consecutive pushes do not compose: ' + msg, {'failing_patch': c['fail'], 'plan': c['plan'], 'model_expects': c['expect']})
        # any split of a push of a richer series (creates, deletes, renames, mode changes, -R, failures) equals the single push
        import p_tool
        out, st2 = p_tool.enumerate_scenarios(res, 'split-scenarios', 'TreesSmall', 'FALSE', 3, 'Cfgs_one', work, 'FALSE')
        lines = [l for l in open(out, errors='replace') if l.startswith('"{')]
        os.unlink(out)
        pick = rnd.sample(lines, min(len(lines), 1500 if tier == 'quick' else 15000))
        # ... and two-patch series with -R entries (a reversed creation deletes what an earlier push created, a reversed
        # deletion re-creates): the split is between the two patches
        out, st3 = p_tool.enumerate_scenarios(res, 'split-scenarios-reverse', 'TreesSmall', 'TRUE', 2, 'Cfgs_one', work, 'TRUE')
        rlines = [l for l in open(out, errors='replace') if l.startswith('"{') and '\\"rev\\":true' in l]
        os.unlink(out)
        pick += rnd.sample(rlines, min(len(rlines), 1200 if tier == 'quick' else 15000))
        # series in which a directory exists only in between (made for a file an early patch creates, emptied by a later
        # one): pushed at once it never reaches the disk, pushed in pieces it is made and has to be removed again
        def transient_dir(sc):
            ex = [any(t[p_]['ex'] for p_ in ('d/c', 'd/e')) for t in sc['prefixTrees']]
            return not ex[0] and any(ex) and not ex[-1]
        # ... and series in which a file goes away and comes back (what the re-created file inherits must not depend on
        # whether the deletion was saved in between)
        def recreated(sc):
            for p_ in ('a', 'b', 'd/c', 'd/e'):
                ex = [t[p_]['ex'] for t in sc['prefixTrees']]
                if ex[0] and not all(ex) and ex[-1]:
                    return True
            return False
        forced, forced2 = [], []
        for l in rlines:
            dirs_ = '\\"new\\":\\"d/e\\"' in l or '\\"new\\":\\"d/c\\"' in l
            sc = json.loads(json.loads(l)) if (dirs_ or '\\"kind\\":\\"C\\"' in l) else None
            if sc is None or sc['outs'][0]['out']['adversarial']:
                continue
            if dirs_ and transient_dir(sc):
                forced.append(sc)
            elif sc['outs'][0]['out']['exit'] == 0 and recreated(sc):
                forced2.append(sc)
        if len(forced) > (300 if tier == 'quick' else 3000):
            forced = rnd.sample(forced, 300 if tier == 'quick' else 3000)
        forced += forced2 if len(forced2) <= 300 else rnd.sample(forced2, 300 if tier == 'quick' else 3000)
        sjobs = [(sc, [['1'], ['-a']], 1 + i % 2, i % 2) for i, sc in enumerate(forced)]
        nforced = len(sjobs)
        for li, line in enumerate(pick):
            sc = json.loads(json.loads(line))
            if sc['outs'][0]['out']['adversarial']:
                continue
            if any(fp['kind'] == 'E' for pt in sc['series'] for fp in pt['fps']):
                # a push that ends in an error leaves nothing behind, also not the patches before the one with the error
                # (C05: no name recorded, tree unchanged), while the pieces before it stay applied when pushed separately:
                # C09 speaks of reaching a goal and of failed pushes, not of these
                continue
            sjobs.append((sc, [['1'], ['-a']] if li % 3 == 0 else ([['2'], ['-a']] if li % 3 == 1 else [['1'], ['1'], ['-a']]), 1 + li % 2, (li // 3) % 2))
        with Pool(12) as pool:
            souts = pool.map(split_job, sjobs, chunksize=8)
        nb = 0
        for (sc, plan, threads, _nv), probs in zip(sjobs, souts):
            for cat, msg in probs:
                nb += 1
                res.violation('split:' + cat, 'a push split into %s differs from the single push -a: %s' % (plan, msg), {'tree0': sc['tree0'], 'series': sc['series'], 'plan': plan, 'threads': threads})
        res.cov['parts']['split-scenarios'].update({'scenarios': len(sjobs), 'with_transient_directory_or_recreated_file': nforced, 'bad': nb})
        res.cov['traces_validated_against_impl'] += len(sjobs)
        ninv = sum(len(c['plan']) for c in cases)
        res.cov['parts']['sessions'] = {'sessions': len(cases), 'invocations': ninv, 'with_failure': sum(1 for c in cases if c['fail']),
                                        'with_noop_or_refusal': sum(1 for c in cases if 1 in c['expect']['exits'] or c['expect']['applied'] == 4)}
        res.cov['traces_validated_against_impl'] += len(cases)
        res.cov['evaluations'] += ninv
        res.cov['distinct_nontrivial'] += len(cases)
        res.sample(cases[len(cases) // 2])
        ws.cleanup_all()
    finally:
        shutil.rmtree(work, ignore_errors=True)
    res.cov['exhaustive'] = tier == 'thorough'
    res.cov['rule'] = ('every plan of 1..MaxInv invocations (goal in {default, -a, 2, p2.patch, p4.patch} x threads in {1,2}) over a 4-patch series with no / 2nd / 3rd patch failing (TLC); the model composes the '
                       'invocations (Cmd.Resolve + reference push) and checks that equals one push to the furthest goal; the real binary runs the plan as consecutive processes and its tree, rejects and '
                       'applied-patches are compared with the model and with a real single push')
    return res


def check(prop, tier):
    return {'C09': check_c09, 'C16': check_c16, 'C17': check_c17}[prop](prop, tier)
