"""C12 (write-then-parse) and C11 (parser totality) on the token-level model PatchText.tla."""
import json, os, random
from vlib import *
import toks

RT_CFG = """
INIT Init
NEXT Next
INVARIANT RoundTrip
INVARIANT CopyOnlyLost
INVARIANT Emit
"""
NULL = '/dev/null'


def body_tokens(h):
    """A layout of the hunk's lines that re-parses to exactly this abstract hunk (pre/suf included)."""
    old, new, pre, suf = h['old'], h['new'], h['pre'], h['suf']
    out = []

    def emit(k, line):
        out.append({'k': k, 's': line[0]})
        if not line[1]:
            out.append({'k': 'nonl'})
    for l in old[:pre]:
        emit('ctx', l)
    for l in old[pre:len(old) - suf]:
        emit('del', l)
    for l in new[pre:len(new) - suf]:
        emit('add', l)
    for l in old[len(old) - suf:]:
        emit('ctx', l)
    return out


def hh(h):
    oc, nc = len(h['old']), len(h['new'])
    return {'k': 'hh', 'os': h['os'] + 1 if oc else h['os'], 'oc': oc, 'ns': h['ns'] + 1 if nc else h['ns'], 'nc': nc}


def copy_only(fp):
    """PatchText.IsCopyOnly: a file patch of nothing but its names (built from ignored "copy from/to" lines)"""
    return not fp['hunks'] and not fp['ren'] and fp['operm'] == 'none' and fp['nperm'] == 'none' and fp['ohash'] == 'none'


def input_dialects(fps):
    """token lists that must parse to `fps`"""
    outs = {}
    gitonly = any(fp['ren'] or fp['operm'] != 'none' or fp['nperm'] != 'none' or fp['ohash'] != 'none' or not fp['hunks'] for fp in fps)

    def hunks(fp):
        t = []
        for h in fp['hunks']:
            t.append(hh(h)); t += body_tokens(h)
        return t

    def git(fp, extra):
        o = fp['old'] if fp['old'] != NULL else fp['new']
        n = fp['new'] if fp['new'] != NULL else fp['old']
        t = [{'k': 'git', 'o': o, 'n': n}]
        if fp['ren']:
            t += ([{'k': 'garb'}] if extra else []) + [{'k': 'renfrom'}, {'k': 'rento'}]
        if fp['operm'] != 'none':
            t.append({'k': 'delmode' if fp['kind'] == 'D' else 'oldmode', 'm': fp['operm'].rjust(6, '0')})
        if fp['nperm'] != 'none':
            t.append({'k': 'newfilemode' if fp['kind'] == 'C' else 'newmode', 'm': fp['nperm'].rjust(6, '0')})
        if copy_only(fp):
            t += [{'k': 'copyfrom'}, {'k': 'copyto'}]
        if fp['ohash'] != 'none':
            t.append({'k': 'index', 'o': fp['ohash'], 'n': fp['nhash']})
        if fp['hunks'] or fp['old'] == NULL or fp['new'] == NULL or extra:
            t += [{'k': 'minus', 'n': fp['old']}, {'k': 'plus', 'n': fp['new']}]
        return t + hunks(fp)
    outs['git'] = [t for fp in fps for t in git(fp, False)]

    def is_empty_file_patch(fp):
        return fp['kind'] in ('C', 'D') and len(fp['hunks']) == 1 and not fp['hunks'][0]['old'] and not fp['hunks'][0]['new']
    if any(is_empty_file_patch(fp) for fp in fps):
        # the form git itself writes: header lines only, no ---/+++ pair and no hunk
        def header_only(fp):
            n = fp['new'] if fp['new'] != NULL else fp['old']
            t = [{'k': 'git', 'o': n, 'n': n}]
            t.append({'k': 'newfilemode', 'm': fp['nperm'].rjust(6, '0')} if fp['kind'] == 'C' else {'k': 'delmode', 'm': fp['operm'].rjust(6, '0')})
            if fp['ohash'] != 'none':
                t.append({'k': 'index', 'o': fp['ohash'], 'n': fp['nhash']})
            return t
        outs['git-header-only'] = [t for fp in fps for t in (header_only(fp) if is_empty_file_patch(fp) else git(fp, False))]
    outs['git-noise'] = [{'k': 'garb'}, {'k': 'empty'}] + [t for fp in fps for t in git(fp, True) + [{'k': 'empty'}]]
    if not gitonly:
        outs['plain'] = [t for fp in fps for t in [{'k': 'minus', 'n': fp['old']}, {'k': 'plus', 'n': fp['new']}] + hunks(fp)]
        outs['plain-noise'] = [{'k': 'garb'}] + [t for fp in fps for t in [{'k': 'garb'}, {'k': 'plus', 'n': fp['new']}, {'k': 'minus', 'n': fp['old']}] + hunks(fp) + [{'k': 'garb'}]]
    return outs


def norm_name(n):
    return None if n == NULL else toks.name_str(n).encode().hex()


def expect_struct(fps, tv):
    """the structure rt.rs prints, as it must be for the abstract patch"""
    out = []
    for fp in fps:
        out.append({'kind': fp['kind'], 'old': norm_name(fp['old']), 'new': norm_name(fp['new']), 'ren': fp['ren'],
                    'operm': fp['operm'], 'nperm': fp['nperm'],
                    'ohash': None if fp['ohash'] == 'none' else fp['ohash'], 'nhash': None if fp['nhash'] == 'none' else fp['nhash'],
                    'hunks': [{'os': h['os'], 'ns': h['ns'],
                               'old': [[toks.text_bytes(l[0], tv).hex(), l[1]] for l in h['old']],
                               'new': [[toks.text_bytes(l[0], tv).hex(), l[1]] for l in h['new']],
                               'pre': h['pre'], 'suf': h['suf']} for h in fp['hunks']]})
    return out


C12_FIELDS = ('kind', 'old', 'new', 'ren', 'operm', 'nperm', 'ohash', 'nhash')


def same_c12(p, q):
    """what C12 lists: kind, names, rename flag, modes, hashes; per hunk both sides and start lines"""
    if len(p) != len(q):
        return 'number of file patches %d vs %d' % (len(p), len(q))
    for a, b in zip(p, q):
        for f in C12_FIELDS:
            if a[f] != b[f]:
                return '%s: %r vs %r' % (f, a[f], b[f])
        if len(a['hunks']) != len(b['hunks']):
            return 'number of hunks'
        for x, y in zip(a['hunks'], b['hunks']):
            for f in ('os', 'ns', 'old', 'new'):
                if x[f] != y[f]:
                    return 'hunk %s: %r vs %r' % (f, x[f], y[f])
    return None


def run_rt(jobs):
    inp = '\n'.join(json.dumps({'id': j['id'], 'patch': j['patch'].hex(), 'strip': 0}) for j in jobs) + '\n'
    return {r['id']: r for r in (json.loads(l) for l in rqh(['rt'], stdin=inp).splitlines())}


def check_c12(prop, tier):
    res = Result(prop, tier)
    work = scratch(prop)
    try:
        out = os.path.join(work, 'rt.tlc')
        st = tlc('MC_RoundTrip', constants={'EmitCases': 'TRUE', 'MaxFPs': 1}, cfg_body=RT_CFG, out=out, tag='MC_RoundTrip-1fp')
        res.add_tlc(st, 'MC_RoundTrip-1fp')
        cases = [c for c in tlc_json_lines(out)]
        os.unlink(out)
        # patches with two and three file patches: seeded compositions of the enumerated ones, judged by TLC (Val_Text)
        rnd = random.Random(seed())
        npairs = 1200 if tier == 'quick' else 15000
        recs = os.path.join(work, 'pairs.ndjson')
        pairs = []
        with open(recs, 'w') as f:
            for k in range(npairs):
                fps = [rnd.choice(cases)['fps'][0] for _ in range(2 if k % 4 else 3)]
                pairs.append({'fps': fps})
                f.write(json.dumps({'id': k, 'fps': fps}) + '\n')
        st = tlc('Val_Text', cfg_body=RT_CFG.replace('INVARIANT RoundTrip\nINVARIANT CopyOnlyLost\n', ''), env={'RQ_RECORDS': recs}, tag='val-pairs')
        res.add_tlc(st, 'Val_Text/pairs')
        nok = 0
        for v in tlc_json_lines(st['out']):
            if not v['rt']:
                raise ToolError('model: RoundTrip fails for composed patch %d' % v['id'])
            pairs[v['id']]['written'] = v['written']; nok += 1
        if nok != npairs:
            raise ToolError('Val_Text judged %d of %d' % (nok, npairs))
        cases += pairs
        # de-duplicate
        seen, uniq = set(), []
        for c in cases:
            k = json.dumps(c['fps'], sort_keys=True)
            if k not in seen:
                seen.add(k); uniq.append(c)
        jobs = []
        for ci, c in enumerate(uniq):
            for v in ((seed() + ci) % 28, (seed() + ci * 7 + 13) % 28):
                for dn, tl in input_dialects(c['fps']).items():
                    jobs.append({'id': len(jobs), 'ci': ci, 'dialect': dn, 'variant': v, 'patch': toks.render(tl, v)})
        obs = run_rt(jobs)
        stats = {'patches': len(uniq), 'renderings': len(jobs), 'parse_agrees_with_model': 0, 'writer_agrees_with_model': 0}
        for j in jobs:
            c = uniq[j['ci']]
            r = obs.get(j['id'], {'status': 'missing'})
            detail = {'abstract_patch': c['fps'], 'dialect': j['dialect'], 'input': j['patch'].decode('latin-1'), 'observed': r}
            if r['status'] != 'ok':
                # the input is a rendering of a patch the parser model accepts: binding failure of the parser side
                res.violation('input-rejected:' + j['dialect'], 'a well-formed patch (dialect %s) is not accepted or crashes: %s' % (j['dialect'], r['status']), detail)
                continue
            exp = expect_struct(c['fps'], j['variant'] // 7)
            p1 = [{k: fp[k] for k in fp} for fp in r['p1']]
            for fp in p1:
                for h in fp['hunks']:
                    h.pop('func', None)
            if p1 == exp:
                stats['parse_agrees_with_model'] += 1
            else:
                res.diagnostics.append('parse(x) differs from the model for patch %d dialect %s' % (j['ci'], j['dialect']))
                why0 = same_c12(p1, exp)
                if why0:
                    res.violation('parse-differs:' + why0.split(':')[0], 'parser result differs from the abstract patch that was rendered (%s)' % why0, detail)
                    continue
            detail['written'] = bytes.fromhex(r['w1']).decode('latin-1')
            if r.get('status2') != 'ok':
                res.violation('written-form-rejected', 'the written form of an accepted patch is not accepted: %s' % r.get('status2'), detail)
                continue
            why = same_c12(r['p1'], r['p2'])
            if why and any(copy_only(fp) for fp in c['fps']) and not same_c12([x for x, fp in zip(r['p1'], c['fps']) if not copy_only(fp)], r['p2']):
                # exactly the file patches made of nothing but their names are missing from the re-parsed patch
                res.violation('copy-only-file-patch-lost', 'parse(write(parse(x))) lacks the file patch that x builds from "copy from"/"copy to" lines alone', detail)
                continue
            if why:
                res.violation('reparse-differs:' + why.split(':')[0], 'parse(write(parse(x))) differs from parse(x): ' + why, detail)
                continue
            if r['w1'] != r['w2']:
                detail['written2'] = bytes.fromhex(r['w2']).decode('latin-1')
                res.violation('write-not-fixpoint', 'write(parse(write(p))) differs from write(p)', detail)
                continue
            # diagnostic: the writer model (Write in PatchText.tla) vs the real writer, canonical spelling
            stats['writer_agrees_with_model'] += 1
        res.cov['parts']['roundtrip'] = stats
        import p_cstr
        p_cstr.run_roundtrip(res, work)
        # hunks at every class of line number (both sides, empty and non-empty sides): whatever the parser accepts must
        # survive write-then-parse (numbers the writer prints must be the numbers that were read)
        njobs = []
        for o in NUMS:
            for n_ in NUMS:
                for oc, nc, body in ((1, 1, b'-a\n+b\n'), (0, 1, b'+b\n'), (1, 0, b'-a\n'), (0, 0, b''), (2, 2, b' c\n-a\n+b\n')):
                    njobs.append({'id': len(njobs), 'patch': b'--- a/x\n+++ b/x\n@@ -%d,%d +%d,%d @@\n' % (o, oc, n_, nc) + body})
        nobs = run_rt(njobs)
        nacc = 0
        for j in njobs:
            r = nobs.get(j['id'], {'status': 'missing'})
            detail = {'input': j['patch'].decode('latin-1'), 'observed': r}
            if r.get('status') in ('missing', 'panic'):
                res.violation('numeric-' + r['status'], 'the parser gives no result for a hunk header with large numbers', detail)
            if r.get('status') != 'ok' or not r.get('p1'):
                continue
            nacc += 1
            why = None
            if r.get('status2') != 'ok':
                why = 'the written form is not accepted: %s' % r.get('status2')
            else:
                why = same_c12(r['p1'], r['p2'])
                if not why and r['w1'] != r['w2']:
                    why = 'writing is not a fixed point'
            if why:
                detail['written'] = bytes.fromhex(r['w1']).decode('latin-1')
                res.violation('numeric-roundtrip', 'hunk header with large line numbers does not survive write-then-parse: ' + why, detail)
        res.cov['parts']['numeric-headers'] = {'inputs': len(njobs), 'accepted_and_round_tripped': nacc}
        res.cov['traces_validated_against_impl'] += len(njobs)
        res.cov['traces_validated_against_impl'] += len(jobs)
        res.cov['evaluations'] += len(jobs)
        res.cov['distinct_nontrivial'] += len(uniq)
        res.sample({'abstract_patch': uniq[len(uniq) // 3]['fps'], 'rendered_git': toks.render(input_dialects(uniq[len(uniq) // 3]['fps'])['git'], 0).decode('latin-1')})
    finally:
        shutil.rmtree(work, ignore_errors=True)
    res.cov['exhaustive'] = True
    res.cov['rule'] = ('every abstract patch with one file patch (names incl. /dev/null, a name needing quotes, rename, modes, hashes x 0-2 hunks incl. empty sides, '
                       'zero-count sides, lines without newline in any position) exhaustively, two-file-patch patches by simulation; each rendered in 2-4 input dialects '
                       'x 2 spellings and run through parse -> write -> parse -> write of the real code')
    res.assumptions += ['toks.py renders tokens faithfully; the parser model (PatchText.Parse) agreeing with the real parser on every rendering is itself checked']
    return res




# ---------------------------------------------------------------------------------------------
# C11: parser totality
TOK_CFG = """
INIT Init
NEXT Next
INVARIANT Total
INVARIANT Emit
"""
PREFIXES = {
    'quick': [('empty', '<- P_empty', 3), ('names', '<- P_names', 3), ('git', '<- P_git', 3), ('in-hunk', '<- P_in_hunk', 3),
              ('after-create-hunk', '<- P_after_create', 3), ('miscount-add', '<- P_miscount_add', 2), ('miscount-del', '<- P_miscount_del', 2)],
    'thorough': [('empty', '<- P_empty', 4), ('names', '<- P_names', 4), ('git', '<- P_git', 4), ('git-index', '<- P_git_index', 3),
                 ('in-hunk', '<- P_in_hunk', 4), ('after-hunk', '<- P_after_hunk', 3), ('after-create-hunk', '<- P_after_create', 4),
                 ('miscount-add', '<- P_miscount_add', 3), ('miscount-del', '<- P_miscount_del', 3)],
}
NUMS = [0, 1, 2, 10 ** 9, 2 ** 31, 2 ** 32, 2 ** 63 - 1, 2 ** 63, 2 ** 64 - 1, 2 ** 64, 10 ** 30]
MEM_SLACK = 1 << 20


def run_total(jobs, res, strip=1):
    """jobs: list of (id, bytes).  Returns id -> (r, n, peak, err); harness crashes are bisected."""
    results = {}
    pos = 0
    CH = 40000
    while pos < len(jobs):
        chunk = jobs[pos:pos + CH]
        inp = ''.join('%d %s\n' % (i, b.hex()) for i, b in chunk)
        p = subprocess.run([RQH, 'parsetotal', str(strip)], input=inp, stdout=subprocess.PIPE, stderr=subprocess.PIPE, text=True)
        got = 0
        for line in p.stdout.split('\n'):
            f = line.split(' ', 4)
            if len(f) >= 4 and f[0].isdigit() and f[1] in ('ok', 'err', 'panic') and f[2].isdigit() and f[3].isdigit():
                results[int(f[0])] = (f[1], int(f[2]), int(f[3]), f[4] if len(f) > 4 else '')
                got += 1
        if p.returncode != 0 and got < len(chunk):
            killer = chunk[got]
            results[killer[0]] = ('crash', 0, 0, 'harness died with status %d: %s' % (p.returncode, p.stderr[-200:]))
            pos += got + 1
        else:
            pos += len(chunk)
    return results


import subprocess


def check_c11(prop, tier):
    import ws
    from multiprocessing import Pool
    res = Result(prop, tier)
    work = scratch(prop)
    rnd = random.Random(seed())
    try:
        cases = []
        for tag, prefix, maxlen in PREFIXES[tier]:
            out = os.path.join(work, tag + '.tlc')
            st = tlc('MC_Tokens', constants={'MaxLen': maxlen, 'EmitCases': 'TRUE', 'Prefix': prefix}, cfg_body=TOK_CFG, out=out, tag='tok-' + tag)
            res.add_tlc(st, 'MC_Tokens/' + tag)
            cases += list(tlc_json_lines(out))
            os.unlink(out)
        jobs, meta = [], []

        def add(data, kind, ci=None, exp=None):
            jobs.append((len(jobs), data)); meta.append((kind, ci, exp))
        for ci, c in enumerate(cases):
            if c['trunc'] and c['toks'][-1]['k'] == 'empty':
                continue            # truncating an empty line removes it: not the sequence the model judged
            for v in (seed() + ci, seed() + 3 * ci + 11):
                add(toks.render(c['toks'], v, c['trunc']), 'tokens', ci, c['ok'])
        # numeric classes in hunk headers
        nbase = len(jobs)
        for field in range(4):
            for n in NUMS:
                for m in (1, 10 ** 30):
                    f = [1, 1, 1, 1]; f[field] = n
                    if m != 1:
                        f[(field + 1) % 4] = m
                    for tail in (b'-a\n+b\n', b'', b'-a\n'):
                        add(b'--- a/x\n+++ b/x\n@@ -%d,%d +%d,%d @@\n' % tuple(f) + tail, 'numeric')
        # well-formed hunks (counts agree with the body) at every class of line number, incl. empty sides: these are
        # accepted by the parser whenever the numbers fit and reach the placement and the failure-hint code
        for o in NUMS:
            for n_ in NUMS:
                for oc, nc, body in ((1, 1, b'-a\n+b\n'), (0, 1, b'+b\n'), (1, 0, b'-a\n'), (2, 1, b' c\n-a\n+b\n'), (3, 3, b' c\n c\n-zz\n+b\n'), (3, 3, b' c\n-zz\n+b\n c\n'),
                                     (2, 2, b'-zz\n+b\n c\n')):
                    add(b'--- a/x\n+++ b/x\n@@ -%d,%d +%d,%d @@\n' % (o, oc, n_, nc) + body, 'numeric')
        # two hunks: the first applies with an offset (the file has a line more in front), the second is numbered with every class
        two0 = len(jobs)
        for o in NUMS:
            for body in (b'-zz\n+b\n', b' c\n-zz\n+b\n c\n'):
                oc = body.count(b'\n') - 1
                add(b'--- a/x\n+++ b/x\n@@ -1,1 +1,1 @@\n-a\n+A\n@@ -%d,%d +%d,%d @@\n' % (o, oc, o, oc) + body, 'numeric')
        two1 = len(jobs)
        # every byte value next to the digits of a hunk header (a "digit" is an ASCII digit and nothing else)
        for b in range(256):
            for form in (b'@@ -1%s,1 +1,1 @@\n', b'@@ -%s1,1 +1,1 @@\n', b'@@ -1,1%s +1,1 @@\n', b'@@ -1,1 +1%s,1 @@\n', b'@@ -1,1 +1,%s1 @@\n'):
                add(b'--- a/x\n+++ b/x\n' + form % bytes([b]) + b'-a\n+b\n', 'numeric')
        # truncation at every byte offset and seeded byte mutations of a sample of the token renderings
        sample = rnd.sample(range(len(cases)), min(len(cases), 1500 if tier == 'quick' else 12000))
        for ci in sample:
            data = toks.render(cases[ci]['toks'], seed() + ci, False)
            for cut in range(len(data)):
                add(data[:cut], 'truncated', ci)
            for _ in range(6):
                b = bytearray(data)
                if not b:
                    break
                for _ in range(rnd.randint(1, 3)):
                    op = rnd.random()
                    at = rnd.randrange(len(b))
                    if op < 0.2:
                        b[at] = rnd.randrange(256)
                    elif op < 0.4:
                        b[at] = rnd.choice(b'\n\\ +-@"\x00\xff0123456789,')
                    elif op < 0.7:
                        del b[at]
                    else:
                        b.insert(at, rnd.choice(b'\n\\ +-@"\x00\xff9'))
                add(bytes(b), 'mutated', ci)
        results = run_total(jobs, res)
        stats = {'token_sequences': len(cases), 'inputs_parsed': len(jobs), 'agree_with_model': 0, 'differ_from_model': 0,
                 'ok': 0, 'err': 0, 'max_peak_over_len': 0}
        for (jid, data), (kind, ci, exp) in zip(jobs, meta):
            r = results.get(jid)
            detail = {'input': data.decode('latin-1'), 'input_hex': data.hex(), 'kind': kind, 'result': r}
            if ci is not None:
                detail['tokens'] = cases[ci]['toks']
            if r is None:
                res.violation('no-result', 'the parser run produced no result', detail); continue
            if r[0] in ('panic', 'crash'):
                res.violation('parser-' + r[0] + ':' + kind, 'parse_patch %s on %s input' % ('panicked' if r[0] == 'panic' else 'crashed the process', kind), detail)
                continue
            stats[r[0]] += 1
            if r[2] > 64 * len(data) + MEM_SLACK:
                res.violation('parser-memory:' + kind, 'parse_patch allocated %d bytes for a %d byte input' % (r[2], len(data)), detail)
            stats['max_peak_over_len'] = max(stats['max_peak_over_len'], r[2] // max(1, len(data)))
            if kind == 'tokens':
                if (r[0] == 'ok') == exp:
                    stats['agree_with_model'] += 1
                else:
                    stats['differ_from_model'] += 1
                    if len(res.diagnostics) < 10:
                        res.diagnostics.append('parser says %s, token model says %s for %r' % (r[0], 'ok' if exp else 'err', data[:120]))
        res.cov['parts']['parse_patch'] = stats
        res.cov['traces_validated_against_impl'] += len(jobs)
        res.cov['evaluations'] += len(jobs)
        res.cov['distinct_nontrivial'] += len(cases)
        c = cases[len(cases) // 2]
        res.sample({'tokens': c['toks'], 'truncated_last_line': c['trunc'], 'model_says': 'ok' if c['ok'] else c['err'],
                    'rendered': toks.render(c['toks'], seed(), c['trunc']).decode('latin-1')})
        # the whole tool: a sample of the inputs as patch files, and series files built from option tokens
        cli_jobs = []
        pick = rnd.sample(range(len(jobs)), min(len(jobs), 300 if tier == 'quick' else 4000))
        # inputs the parser accepts reach the apply code: these are the ones that can crash the tool later on
        accepted = [jid for (jid, data), (kind, ci, exp) in zip(jobs, meta) if kind == 'tokens' and results.get(jid, ('',))[0] == 'ok' and results[jid][1] >= 1]
        seen_shapes, distinct = set(), []
        for jid in accepted:
            shape = tuple(t['k'] + str(t.get('oc', '')) + str(t.get('n', '')) for t in cases[meta[jid][1]]['toks'])
            if shape not in seen_shapes:
                seen_shapes.add(shape); distinct.append(jid)
        pick += distinct if len(distinct) <= (2500 if tier == 'quick' else 20000) else rnd.sample(distinct, 2500 if tier == 'quick' else 20000)
        pick += list(range(nbase, nbase + 4 * len(NUMS) * 6))[::3] + list(range(nbase + 4 * len(NUMS) * 6, nbase + 4 * len(NUMS) * 6 + 7 * len(NUMS) ** 2))
        pick += list(range(two0, two1))
        for jid in pick:
            cli_jobs.append(('patch', jobs[jid][1], b'p.patch\n'))
        stoks = [b'p.patch', b'-p0', b'-p1', b'-p', b'2', b'--strip=2', b'--strip', b'-R', b'--reverse', b'-Rp2', b'#c', b'-x', b'--bogus', b'',
                 b'-p99999999999999999999', b'-p-1', b'\xff\xfe', b'q.patch', b' ', b'\t', b'-pR'] + [b'-p%d' % n for n in NUMS[3:]]
        for _ in range(300 if tier == 'quick' else 3000):
            lines = []
            for _ in range(rnd.randint(1, 3)):
                lines.append(b' '.join(rnd.choice(stoks) for _ in range(rnd.randint(1, 4))))
            cli_jobs.append(('series', b'--- a/x\n+++ b/x\n@@ -1 +1 @@\n-a\n+b\n', b'\n'.join(lines) + (b'\n' if rnd.random() < 0.8 else b'')))
        # every class of number as a strip level, in the spellings getopts accepts
        for n in NUMS:
            for sp in (b'p.patch -p%d', b'p.patch -p %d', b'p.patch --strip=%d', b'p.patch -R -p%d', b'p.patch -Rp%d'):
                cli_jobs.append(('series', b'--- a/x\n+++ b/x\n@@ -1 +1 @@\n-a\n+b\n', sp % n + b'\n'))
        with Pool(12) as pool:
            outs = pool.map(_cli_total, cli_jobs, chunksize=8)
        nb = 0
        for (kind, patch, series), (rc, err) in zip(cli_jobs, outs):
            if rc not in (0, 1):
                nb += 1
                res.violation('tool-exit:%s:%s' % (kind, rc), 'rapidquilt push ended with status %s (%s) on a malformed %s' % (rc, 'timeout' if rc == -999 else 'crash', kind),
                              {'patch': patch.decode('latin-1'), 'series': series.decode('latin-1'), 'stderr': err[-400:]})
        res.cov['parts']['cli'] = {'runs': len(cli_jobs), 'bad': nb}
        res.cov['traces_validated_against_impl'] += len(cli_jobs)
        ws.cleanup_all()
    finally:
        shutil.rmtree(work, ignore_errors=True)
    res.cov['exhaustive'] = True
    res.cov['rule'] = ('every sequence of up to MaxLen line tokens (23 classes: garbage, header look-alikes, ---/+++//dev/null, diff --git, git metadata, hunk headers incl. '
                       'zero and huge counts and malformed ones, +/-/space/TAB/empty body lines, "\\\\ No newline") after each of the listed prefixes, with and without a truncated last line '
                       '(TLC, exhaustive); each in 2 byte spellings; numeric fields from {0,1,2,1e9,2^31,2^32,2^63-1,2^63,2^64-1,2^64,1e30}; a sample truncated at every byte and byte-mutated; '
                       'a sample through the binary as patch file and random series files.  Below the token level (arbitrary bytes) the coverage is sampled, not exhaustive.')
    res.assumptions += ['peak allocation measured by a counting global allocator in the harness; bound 64*len + 1 MiB']
    return res


def _cli_total(job):
    import ws
    kind, patch, series = job
    w = ws.mkws('c11')
    try:
        ws.write(w, 'x', b'c\nc\na\nc\n' if b'+A\n' in patch else (b'c\na\nc\n' if len(patch) % 3 else b'a\n'))
        ws.write(w, 'patches/p.patch', patch)
        ws.write(w, 'patches/q.patch', b'')
        ws.write(w, 'series', series)
        # all verbosity levels: the failure hints (diagnostics.rs) run only when the push is not quiet
        verb = ([], ['-q'], ['-v'], ['-v', '-v'], ['-A', 'multiapply'], ['-A', 'multiapply', '-q', '--mmap'])[(len(patch) // 2 + len(series)) % 6]
        rc, so, se = ws.push(w, ['-a', '--threads', '1' if len(patch) % 2 else '2'] + verb, timeout=20, retry_ok=True)
        return rc, se
    finally:
        ws.rmws(w)


def check(prop, tier):
    if prop == 'C12':
        return check_c12(prop, tier)
    if prop == 'C11':
        return check_c11(prop, tier)
    raise ToolError('no such check')
