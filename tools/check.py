#!/usr/bin/env python3
"""python3 tools/check.py <Cxx> [--tier quick|thorough]   (honours VERIF_SEED, VERIF_TIER)"""
import sys, os, argparse, traceback
sys.path.insert(0, os.path.dirname(os.path.abspath(__file__)))
from vlib import *

def dispatch(prop):
    if prop in ('C02', 'C03', 'C04', 'C20'):
        import p_hunks
        return p_hunks.check
    if prop == 'C01':
        import p_diff
        return p_diff.check
    if prop in ('C11', 'C12'):
        import p_text
        return p_text.check
    if prop in ('C05', 'C08', 'C10', 'C13', 'C14', 'C15'):
        import p_tool
        return p_tool.check
    if prop in ('C09', 'C16', 'C17'):
        import p_cmd
        return p_cmd.check
    if prop == 'C19':
        import p_names
        return p_names.check
    if prop == 'C18':
        import p_fault
        return p_fault.check
    if prop == 'C06':
        import p_par
        return p_par.check
    if prop == 'C07':
        import p_dist
        return p_dist.check
    raise ToolError('no check for ' + prop)

def main():
    ap = argparse.ArgumentParser()
    ap.add_argument('prop')
    ap.add_argument('--tier', default=os.environ.get('VERIF_TIER', 'quick'))
    ap.add_argument('--no-build', action='store_true')
    a = ap.parse_args()
    tier = a.tier if a.tier in ('quick', 'thorough') else 'quick'
    try:
        fn = dispatch(a.prop)
        if not a.no_build:
            build()
        res = fn(a.prop, tier)
        sys.exit(finish(res))
    except ToolError as e:
        print('TOOL-ERROR: %s' % e, file=sys.stderr)
        sys.exit(2)
    except SystemExit:
        raise
    except Exception:
        traceback.print_exc()
        sys.exit(2)

if __name__ == '__main__':
    main()
