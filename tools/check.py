#!/usr/bin/env python3
"""python3 tools/check.py <Cxx> [--tier quick|thorough]   (honours VERIF_SEED, VERIF_TIER)"""
import sys, os, argparse, traceback
sys.path.insert(0, os.path.dirname(os.path.abspath(__file__)))
from vlib import *

def dispatch(prop):
    if prop in ('C02', 'C03', 'C04', 'C20'):
        import p_hunks
        return p_hunks.check
    if prop == 'C01':
        import p_diff
        return p_diff.check
    if prop in ('C11', 'C12'):
        import p_text
        return p_text.check
    if prop in ('C05', 'C08', 'C10', 'C13', 'C14', 'C15'):
        import p_tool
        return p_tool.check
    if prop in ('C09', 'C16', 'C17'):
        import p_cmd
        return p_cmd.check
    if prop == 'C19':
        import p_names
        return p_names.check
    if prop == 'C18':
        import p_fault
        return p_fault.check
    if prop == 'C06':
        import p_par
        return p_par.check
    if prop == 'C07':
        import p_dist
        return p_dist.check
    raise ToolError('no check for ' + prop)

def replay(prop, path):
    """Re-run one recorded case against the current tree.  Exit 1 (with a VIOLATION line) if it still fails."""
    import json
    rec = json.load(open(path))
    d = rec.get('detail', {})
    print('replaying %s: %s' % (rec.get('key'), rec.get('what')))
    still = None
    if isinstance(d, dict) and 'tree0' in d and 'series' in d and 'cfg' in d:
        import p_tool, ws
        out = d.get('reference')
        if out is not None:
            probs, rc, se = p_tool.run_one(({'tree0': d['tree0'], 'series': d['series']}, d['cfg'], out, d.get('threads', 1), None))
            ws.cleanup_all()
            probs = [p for p in probs if p[0] != '_rej']
            print('exit status %s; problems: %s' % (rc, probs))
            still = bool(probs)
    elif isinstance(d, dict) and 'F' in d and 'hs' in d:
        import tempfile
        case = {'F': d['F'], 'hs': d['hs'], 'runs': [[d['spec']]] if 'spec' in d else [[{'dir': d.get('dir', 'F'), 'lim': d.get('lim', 0), 'rep': d.get('rep', []), 'recon': d.get('out', [])}]]}
        with tempfile.NamedTemporaryFile('w', suffix='.ndjson', delete=False) as f:
            f.write(json.dumps(case) + '\n')
        out = json.loads(rqh(['hunks', f.name, 0, '/dev/null']))
        os.unlink(f.name)
        print(json.dumps(out['counts']))
        still = any(k in out['counts'] for k in ('diverges_from_alg', 'apply_panic', 'rollback_panic', 'rollback_mismatch', 'fuzz_nonmonotone', 'offset_mismatch'))
    if still is None:
        print(json.dumps(d, indent=1)[:4000])
        print('(this kind of case is re-run by the property check itself; stored observation shown)')
        return 0
    if still:
        print('VIOLATION property=%s replay=%s' % (prop, path))
        return 1
    print('the case no longer fails')
    return 0


def main():
    ap = argparse.ArgumentParser()
    ap.add_argument('prop')
    ap.add_argument('--tier', default=os.environ.get('VERIF_TIER', 'quick'))
    ap.add_argument('--no-build', action='store_true')
    ap.add_argument('--replay', default=None)
    a = ap.parse_args()
    tier = a.tier if a.tier in ('quick', 'thorough') else 'quick'
    try:
        if a.replay:
            if not a.no_build:
                build()
            sys.exit(replay(a.prop, a.replay))
        fn = dispatch(a.prop)
        if not a.no_build:
            build()
        res = fn(a.prop, tier)
        sys.exit(finish(res))
    except ToolError as e:
        print('TOOL-ERROR: %s' % e, file=sys.stderr)
        sys.exit(2)
    except SystemExit:
        raise
    except Exception:
        traceback.print_exc()
        sys.exit(2)

if __name__ == '__main__':
    main()
